"""C18 - the command-line tool is a faithful front end to the library.

E-CONF x E-PROD: every option combination of each sub-command x valid and invalid
expressions x valid and invalid documents, driven in-process through
jsonpath.cli.main() with owned argv/stdin/stdout/stderr; a fixed subset is also run as
real `python -m jsonpath` processes and must agree with the in-process driver.
"""
import io
import itertools
import json
import os
import shutil
import subprocess
import sys
import tempfile

from ..run import REPO
from .common import chunks

ID = "C18"
RULE = (
    "path: {-q,-r} x {-f,stdin} x {-o,stdout} x --pretty x --no-unicode-escape x --no-type-checks x --debug x 21 queries (6 rejected at their first character) x 3 "
    "documents; pointer: {-p,-r} x {-f,stdin} x {-o,stdout} x --pretty x --no-unicode-escape x -u x --debug x 15 pointers (5 with outer blanks) x 3 "
    "documents; patch: {-f,stdin} x {-o,stdout} x --pretty x --no-unicode-escape x -u x --debug x 11 patches x 3 documents; "
    "expected outcome computed by the corresponding library call with the same options. "
    "state = distinct (sub-command, options, expression, document); non-trivial = the library accepts (exit status 0 expected)"
)
ASSUMPTIONS = [
    "argparse's own option parsing is trusted; only valid option combinations are generated",
    "in-process driver bound to the real entry point by re-running one case per rejection class and sub-command as a real process",
    "a rejection message is 'one line' when stderr, stripped of a trailing newline, is non-empty and contains no newline",
    "with --debug an exception leaving main() (a traceback in a real process) is allowed; without it, it counts as a traceback",
]

DOCS = ['{"a": [1, 2, {"a": 3}], "arr": [[1], [1, 2]], "a b": "sp", "\\u00e9": "acute", "s": "x", "a\\u00a0": 5}', "[1, 2, [3, {\"a\": 4}]]", '{"a":',
        # byte-level forms: UTF-8 with BOM, UTF-16, invalid UTF-8, non-finite numbers
        b'\xef\xbb\xbf{"a": [1, "\xc3\xa9"], "s": "x"}', '{"a": [1, "\u00e9"], "s": "x"}'.encode("utf-16"), b'{"a": "\xff\xfe\xfd"}',
        '{"a": [1e999, -1e999], "s": "x"}',
        # not JSON, and without any bracket or brace (the library's "probably a bare string" heuristic is for str arguments only)
        "hello", "1 2", "", '"open',
        # JSON that the interpreter cannot decode: an integer beyond its integer/string conversion limit (a ValueError)
        "[" + "1" * 5000 + "]"]
QUERIES = ["$.a", "$\n.a\n[0]", "$[\n'a',\n's'\n]", "$..a", "$[?@.a]", "$.arr[?length(@) == 1]", "$['\\u0061']", "$[?length(@.*) == 1]", "", "$.*", "$.nope",
           "$[", "$[?count(1) == 1]", "$[?nosuch(@)]", "$[9007199254740992]",
           # queries the library rejects at their very first character (the error message shows a line and column)
           "]", "1", "?@.a", "|", "true", " ]",
           # an expression file that is not valid UTF-8 (bytes: given with -r only)
           b"$.a\xff", b"\xff\xfe$.a",
           # characters Python's str.strip() removes but that are not JSONPath blank space: part of a shorthand name
           # (NBSP, U+3000) or a syntax error (form feed, unit separator)
           "$.a\u00a0", "$.a\x0c", "\x1f$.a", "$.s\u3000",
           # rejected texts whose offending token holds a line break: the message still has to be one line
           '$.a "x\ny"', "$.a 'x\ny' !", '$["a\nb"', "$[?@.a == 'x\ny' 'z']"]
POINTERS = ["/a/0", "", "/arr/1/0", "/a%20b", "/a b", "/\\u00e9", "/zz", "/a/9", "a", "/s/0",
            # outer blanks: an inline expression is the library's argument as it stands; an expression file is stripped
            "/a/1 ", "/s ", "/a b ", " /a/0", "/a/1\t",
            b"/a\xff", b"/\xc3"]
PATCHES = ['[{"op": "add", "path": "/b", "value": 1}]', '[{"op": "remove", "path": "/a/0"}]', "[]",
           '[{"op": "add", "path": "/a%20b", "value": 1}]', '[{"op": "replace", "path": "/\\\\u00e9", "value": 1}]',
           '[{"op": "remove", "path": "/zz"}]', '[{"op": "test", "path": "/s", "value": "y"}]', "{}", "[",
           '[{"op": "add", "value": 1}]', '[{"op": "move", "from": "/a/0", "path": "/-"}]']


def selftest():
    return 0


def bounds(tier, seed):
    return {"path_cases": 2 ** 7 * len(QUERIES) * len(DOCS), "pointer_cases": 2 ** 7 * len(POINTERS) * len(DOCS),
            "patch_cases": 2 ** 6 * len(PATCHES) * len(DOCS), "real_processes": len(process_cases())}


def plan(tier, seed):
    shards = []
    for i in range(len(QUERIES)):
        shards.append(("path", i))
    for i in range(len(POINTERS)):
        shards.append(("pointer", i))
    for i in range(len(PATCHES)):
        shards.append(("patch", i))
    for part in chunks(list(range(len(process_cases()))), 4):
        shards.append(("proc", part[0], part[-1] + 1))
    return shards


def run_shard(shard, acc):
    tmp = tempfile.mkdtemp(prefix="c18.")
    try:
        if shard[0] == "proc":
            for case in process_cases()[shard[1]:shard[2]]:
                _check(case, acc, tmp, real=True)
            return
        cmd, i = shard
        for case in cases(cmd, i):
            _check(case, acc, tmp)
    finally:
        shutil.rmtree(tmp, ignore_errors=True)


def cases(cmd, i):
    bools = (False, True)
    if cmd == "path":
        for di in range(len(DOCS)):
            for inline, ffile, ofile, pretty, nue, ntc, debug in itertools.product(bools, repeat=7):
                if inline and isinstance(QUERIES[i], bytes):
                    continue
                yield dict(cmd="path", expr=QUERIES[i], doc=di, inline=inline, ffile=ffile, ofile=ofile, pretty=pretty,
                           nue=nue, ntc=ntc, debug=debug, uri=False)
    elif cmd == "pointer":
        for di in range(len(DOCS)):
            for inline, ffile, ofile, pretty, nue, uri, debug in itertools.product(bools, repeat=7):
                if inline and isinstance(POINTERS[i], bytes):
                    continue
                yield dict(cmd="pointer", expr=POINTERS[i], doc=di, inline=inline, ffile=ffile, ofile=ofile, pretty=pretty,
                           nue=nue, ntc=False, debug=debug, uri=uri)
    else:
        for di in range(len(DOCS)):
            for ffile, ofile, pretty, nue, uri, debug in itertools.product(bools, repeat=6):
                yield dict(cmd="patch", expr=PATCHES[i], doc=di, inline=False, ffile=ffile, ofile=ofile, pretty=pretty,
                           nue=nue, ntc=False, debug=debug, uri=uri)


def process_cases():
    out = []
    base = dict(inline=True, ffile=True, ofile=False, pretty=False, nue=False, ntc=False, debug=False, uri=False, doc=0)
    for i in (0, 3, 9, 10, 11, 12):
        out.append(dict(base, cmd="path", expr=QUERIES[i]))
    out.append(dict(base, cmd="path", expr=QUERIES[0], doc=2))
    out.append(dict(base, cmd="path", expr=QUERIES[1], inline=False, ofile=True, pretty=True))
    out.append(dict(base, cmd="path", expr=QUERIES[9], debug=True))
    for i in (0, 3, 6, 8):
        out.append(dict(base, cmd="pointer", expr=POINTERS[i]))
    out.append(dict(base, cmd="pointer", expr=POINTERS[3], uri=True, ffile=False))
    out.append(dict(base, cmd="pointer", expr=POINTERS[0], inline=False, ofile=True))
    for i in (0, 5, 6, 7, 8, 9):
        out.append(dict(base, cmd="patch", expr=PATCHES[i], inline=False))
    out.append(dict(base, cmd="patch", expr=PATCHES[0], inline=False, doc=2))
    out.append(dict(base, cmd="patch", expr=PATCHES[0], inline=False, ffile=False, pretty=True))
    return out


def library(case):
    """-> ('ok', value) | ('rejected', exception class name) computed with the library, same options."""
    import jsonpath
    from jsonpath.exceptions import JSONPatchError, JSONPathError, JSONPointerError

    doc_text = DOCS[case["doc"]]
    case = _decoded(case)
    try:
        if isinstance(case["expr"], bytes):
            case["expr"].decode("utf-8")  # an expression file that cannot be decoded: rejected as such
        if isinstance(doc_text, bytes):
            json.loads(doc_text)  # undecodable bytes: UnicodeDecodeError (a ValueError) = an undecodable document
        if case["cmd"] == "path":
            env = jsonpath.JSONPathEnvironment(unicode_escape=not case["nue"], well_typed=not case["ntc"])
            # (an expression file is stripped of JSONPath blank space - space, tab, line feed, carriage return)
            p = env.compile(case["expr"] if case["inline"] else case["expr"].strip(" \t\n\r"))
            return ("ok", p.findall(json.loads(doc_text)))
        if case["cmd"] == "pointer":
            doc = json.loads(doc_text) if not _bad_json(doc_text) else None
            ptr = jsonpath.JSONPointer(case["expr"], unicode_escape=not case["nue"], uri_decode=case["uri"])
            if doc is None:
                json.loads(doc_text)
            return ("ok", ptr.resolve(doc))
        patch = json.loads(case["expr"])
        if not isinstance(patch, list):
            return ("rejected", "not-a-list")
        pobj = jsonpath.JSONPatch(patch, unicode_escape=not case["nue"], uri_decode=case["uri"])
        return ("ok", pobj.apply(json.loads(doc_text)))
    except (JSONPathError, JSONPointerError, JSONPatchError, json.JSONDecodeError, UnicodeDecodeError) as e:
        return ("rejected", type(e).__name__)
    except ValueError as e:
        if "integer string conversion" in str(e):
            return ("rejected", "ValueError")  # json.loads cannot decode the document
        return ("library-crash", type(e).__name__)
    except Exception as e:  # noqa: BLE001
        # the library itself neither accepts nor properly rejects this input (e.g. an ill-typed query evaluated with
        # type checks disabled): outside C18, which compares the front end with the library
        return ("library-crash", type(e).__name__)


def _decoded(case):
    """Cases travel through JSON in replay files: a bytes expression is stored as {'bytes': [..]}."""
    e = case.get("expr")
    if isinstance(e, dict) and "bytes" in e:
        case = dict(case)
        case["expr"] = bytes(e["bytes"])
    return case


def _bad_json(t):
    try:
        json.loads(t)
        return False
    except json.JSONDecodeError:
        return True


def build_argv(case, tmp, n):
    argv = []
    if case["debug"]:
        argv.append("--debug")
    if case["pretty"]:
        argv.append("--pretty")
    if case["nue"]:
        argv.append("--no-unicode-escape")
    argv.append(case["cmd"])
    stdin_text = ""
    doc_text = DOCS[case["doc"]]
    if case["cmd"] == "patch":
        pf = os.path.join(tmp, "patch%d.json" % n)
        with open(pf, "w") as f:
            f.write(case["expr"])
        argv.append(pf)
    elif case["inline"]:
        argv += ["-q" if case["cmd"] == "path" else "-p", case["expr"]]
    else:
        ef = os.path.join(tmp, "expr%d.txt" % n)
        with open(ef, "wb") as f:
            f.write((case["expr"] if isinstance(case["expr"], bytes) else case["expr"].encode("utf-8")) + b"\n")
        argv += ["-r", ef]
    if case["ffile"]:
        df = os.path.join(tmp, "doc%d.json" % n)
        with open(df, "wb") as f:
            f.write(doc_text if isinstance(doc_text, bytes) else doc_text.encode("utf-8"))
        argv += ["-f", df]
    else:
        stdin_text = doc_text
    out_path = None
    if case["ofile"]:
        out_path = os.path.join(tmp, "out%d.json" % n)
        if os.path.exists(out_path):
            os.remove(out_path)
        argv += ["-o", out_path]
    if case["ntc"]:
        argv.append("--no-type-checks")
    if case["uri"]:
        argv.append("-u")
    return argv, stdin_text, out_path


_N = [0]


def run_inprocess(argv, stdin_text):
    from jsonpath import cli

    old = (sys.argv, sys.stdin, sys.stdout, sys.stderr)
    out, err = io.StringIO(), io.StringIO()
    sys.argv = ["json"] + argv
    raw = stdin_text if isinstance(stdin_text, bytes) else stdin_text.encode("utf-8")
    sys.stdin = io.TextIOWrapper(io.BytesIO(raw), encoding="utf-8", errors="surrogateescape")
    sys.stdout, sys.stderr = out, err
    status = 0
    escaped = None
    try:
        try:
            cli.main()
        except SystemExit as e:
            status = e.code if isinstance(e.code, int) else (0 if e.code is None else 1)
        except BaseException as e:  # noqa: BLE001
            escaped = "%s: %s" % (type(e).__name__, e)
            status = 1
    finally:
        sys.argv, sys.stdin, sys.stdout, sys.stderr = old
    return status, out.getvalue(), err.getvalue(), escaped


def run_process(argv, stdin_text):
    env = dict(os.environ)
    env["PYTHONPATH"] = REPO
    r = subprocess.run([sys.executable, "-m", "jsonpath"] + argv, input=stdin_text if isinstance(stdin_text, bytes) else stdin_text.encode("utf-8"), capture_output=True,
                       cwd=REPO, env=env, timeout=60)
    err = r.stderr.decode("utf-8", "replace")
    escaped = None
    if "Traceback (most recent call last)" in err:
        escaped = err.strip().splitlines()[-1]
    return r.returncode, r.stdout.decode("utf-8"), err, escaped


def _check(case, acc, tmp, real=False, record=True):
    _N[0] += 1
    case = _decoded(case)
    if isinstance(DOCS[case["doc"]], bytes) and not case["ffile"]:
        # byte-level document forms are given with -f only: standard input is a text stream decoded by the interpreter
        if record:
            acc.count("skipped.bytes-on-stdin")
        return
    exp = library(case)
    if exp[0] == "library-crash":
        if record:
            acc.count("skipped.library-crash")
        return
    argv, stdin_text, out_path = build_argv(case, tmp, _N[0] % 50)
    runner = run_process if real else run_inprocess
    status, out, err, escaped = runner(argv, stdin_text)
    bad = None
    if out_path is not None:
        try:
            with open(out_path, encoding="utf-8") as f:
                written = f.read()
        except OSError:
            written = None
    else:
        written = out
    if exp[0] == "ok":
        want = json.dumps(exp[1], indent=2 if case["pretty"] else None)
        if escaped:
            bad = ("traceback-on-valid-input", "exit 0 and output", escaped)
        elif status != 0:
            bad = ("nonzero-exit-on-valid-input", 0, [status, err.strip()[:200]])
        elif written is None or written.strip() != want.strip():
            bad = ("wrong-output", want, written)
    else:
        if escaped:
            if not case["debug"]:
                bad = ("traceback-without-debug", "one-line message, exit 1", escaped)
        else:
            body = err[:-1] if err.endswith("\n") else err
            if status != 1:
                bad = ("rejection-exit-status", 1, [status, err.strip()[:200], (written or "")[:80]])
            elif not body or "\n" in body:
                bad = ("rejection-message-not-one-line", "one line", err)
            elif "Traceback" in err:
                bad = ("traceback-without-debug", "one-line message", err[:200])
    if record:
        acc.case("proc" if real else case["cmd"], tuple(sorted((k, str(v)) for k, v in case.items())), outcome=exp[0] + ":" + str(exp[1])[:40],
                 nontrivial=exp[0] == "ok")
        acc.count("%s.%s" % (case["cmd"], exp[0]))
        if exp[0] == "rejected":
            acc.count("reject." + exp[1])
        if real:
            acc.count("real-process")
        if acc.evals % 700 == 1:
            acc.sample(case["cmd"], {"argv": argv, "stdin": stdin_text[:40], "expected": [exp[0], exp[1] if exp[0] == "rejected" else None]})
    if bad:
        c = dict(case)
        c["real"] = real
        c["argv"] = argv
        if isinstance(c["expr"], bytes):
            c["expr"] = {"bytes": list(c["expr"])}
        acc.violation("CLI", bad[0], c, expected=bad[1], observed=bad[2])


REQUIRE = {"reject.UnicodeDecodeError": 10, "path.ok": 100, "path.rejected": 100, "pointer.ok": 100, "pointer.rejected": 100, "patch.ok": 50,
           "patch.rejected": 50, "real-process": 10, "reject.JSONPathSyntaxError": 1, "reject.JSONPathTypeError": 1,
           "reject.JSONPathNameError": 1, "reject.JSONPathIndexError": 1, "reject.JSONDecodeError": 1,
           "reject.JSONPatchTestFailure": 1, "reject.not-a-list": 1}


def check_case(sub, case, acc):
    tmp = tempfile.mkdtemp(prefix="c18.")
    try:
        c = {k: v for k, v in case.items() if k not in ("real", "argv")}
        _check(c, acc, tmp, real=bool(case.get("real")), record=False)
    finally:
        shutil.rmtree(tmp, ignore_errors=True)


def shrink(sub, case):
    for k in ("pretty", "nue", "ntc", "debug", "uri", "ofile"):
        if case.get(k):
            c = dict(case)
            c[k] = False
            yield c
    if not case.get("inline") and case["cmd"] != "patch" and isinstance(case.get("expr"), str):
        c = dict(case)
        c["inline"] = True
        yield c
    if not case.get("ffile"):
        c = dict(case)
        c["ffile"] = True
        yield c


def signature(sub, case, v):
    flags = [k for k in ("inline", "ffile", "ofile", "pretty", "nue", "ntc", "debug", "uri") if case.get(k)]
    obs = v.get("observed")
    exc = ""
    if isinstance(obs, str) and ":" in obs:
        exc = "." + obs.split(":")[0][:30]
    lib = library({k: v2 for k, v2 in case.items() if k not in ("real", "argv")})
    return "C18.%s.%s.%s%s.lib(%s)" % (v["kind"], case["cmd"], "not-inline" if (case["cmd"] != "patch" and not case.get("inline")) else "x",
                                     exc, lib[1] if lib[0] == "rejected" else "ok")
