"""Helpers shared by the property modules."""

_KEEP_VALUE = {"lit", "list"}


def tup(x):
    """Convert a JSON-decoded AST (lists) back to the tuple form; literal values are left alone."""
    if isinstance(x, (list, tuple)):
        if x and isinstance(x[0], str) and x[0] in _KEEP_VALUE:
            return (x[0], x[1]) + tuple(x[2:])
        if x and isinstance(x[0], str) and x[0] in TAGS:
            return tuple([x[0]] + [tup(y) for y in x[1:]])
        return [tup(y) for y in x]
    return x


TAGS = {
    "query", "child", "desc", "name", "index", "slice", "wild", "keys", "filter", "or", "and", "not", "paren",
    "cmp", "test", "call", "q", "key", "undef", "re", "littest",
}


def type_tag(v):
    if v is None:
        return "null"
    if isinstance(v, bool):
        return "bool"
    if isinstance(v, (int, float)):
        return "number"
    if isinstance(v, str):
        return "string"
    if isinstance(v, list):
        return "array"
    if isinstance(v, dict):
        return "object"
    return type(v).__name__


def shrink_doc(doc):
    """Smaller documents: each sub-value, each container with one child removed, leaves simplified."""
    if isinstance(doc, list):
        for x in doc:
            yield x
        for i in range(len(doc)):
            yield doc[:i] + doc[i + 1:]
        for i, x in enumerate(doc):
            for y in shrink_doc(x):
                yield doc[:i] + [y] + doc[i + 1:]
    elif isinstance(doc, dict):
        for x in doc.values():
            yield x
        for k in doc:
            yield {k2: v for k2, v in doc.items() if k2 != k}
        for k, x in doc.items():
            for y in shrink_doc(x):
                d = dict(doc)
                d[k] = y
                yield d
    elif isinstance(doc, str) and len(doc) > 1:
        yield doc[:1]


def chunks(xs, n):
    for i in range(0, len(xs), n):
        yield xs[i:i + n]
