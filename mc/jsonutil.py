"""Typed JSON equality, canonical keys and hashing. No code from jsonpath.*.

Typed JSON equality (DESIGN 1a): true/false never equal numbers; numbers equal
when numerically equal; strings by code point; arrays element-wise in order;
objects as unordered (name, value) sets with *str names only*.
"""
import hashlib
import json


MAX_DEPTH = 120  # deeper than any generated document: a value nested further is cyclic (not a JSON value)


def is_json(v, depth=0):
    """True iff v is a plain JSON value (dict keys must be str); cyclic structures are not."""
    if v is None or isinstance(v, (bool, str)):
        return True
    if isinstance(v, (int, float)):
        return True
    if depth > MAX_DEPTH:
        return False
    if isinstance(v, list):
        for x in v:
            if not is_json(x, depth + 1):
                return False
        return True
    if isinstance(v, dict):
        for k, x in v.items():
            if not isinstance(k, str) or not is_json(x, depth + 1):
                return False
        return True
    return False


def jeq(a, b, depth=0):
    """Typed JSON equality."""
    if depth > MAX_DEPTH:
        return False
    if a is None or b is None:
        return a is None and b is None
    ta, tb = isinstance(a, bool), isinstance(b, bool)
    if ta or tb:
        return ta and tb and (a is b or a == b)
    na, nb = isinstance(a, (int, float)), isinstance(b, (int, float))
    if na or nb:
        return na and nb and a == b
    if isinstance(a, str) or isinstance(b, str):
        return isinstance(a, str) and isinstance(b, str) and a == b
    if isinstance(a, list) or isinstance(b, list):
        if not (isinstance(a, list) and isinstance(b, list)) or len(a) != len(b):
            return False
        for x, y in zip(a, b):
            if not jeq(x, y, depth + 1):
                return False
        return True
    if isinstance(a, dict) and isinstance(b, dict):
        if len(a) != len(b):
            return False
        for k, x in a.items():
            if not isinstance(k, str) or k not in b:
                return False
            if not jeq(x, b[k], depth + 1):
                return False
        for k in b:
            if not isinstance(k, str):
                return False
        return True
    return False


def jeq_list(xs, ys):
    """Ordered, duplicate-preserving typed equality of two sequences of values."""
    if len(xs) != len(ys):
        return False
    for x, y in zip(xs, ys):
        if not jeq(x, y):
            return False
    return True


def jeq_ordered(a, b):
    """Typed equality that also requires object member *order* to agree."""
    if isinstance(a, dict) and isinstance(b, dict):
        if list(a.keys()) != list(b.keys()):
            return False
        return all(jeq_ordered(a[k], b[k]) for k in a)
    if isinstance(a, list) and isinstance(b, list):
        return len(a) == len(b) and all(jeq_ordered(x, y) for x, y in zip(a, b))
    return jeq(a, b)


def ckey(v, depth=0):
    """Canonical, typed, hashable key of a JSON-ish value (objects unordered).

    Non-JSON values (tuples, int dict keys, other objects) get distinct tags so
    they never collide with JSON values.
    """
    if depth > MAX_DEPTH:
        return ("cycle",)
    if v is None:
        return ("n",)
    if isinstance(v, bool):
        return ("b", v)
    if isinstance(v, (int, float)):
        try:
            if v == int(v):
                return ("i", int(v))
        except (OverflowError, ValueError):
            return ("f", repr(v))
        return ("f", v)
    if isinstance(v, str):
        return ("s", v)
    if isinstance(v, list):
        return ("a",) + tuple(ckey(x, depth + 1) for x in v)
    if isinstance(v, tuple):
        return ("t",) + tuple(ckey(x, depth + 1) for x in v)
    if isinstance(v, dict):
        items = []
        for k, x in v.items():
            items.append((("k", k) if isinstance(k, str) else ("K", repr(k)), ckey(x, depth + 1)))
        return ("o",) + tuple(sorted(items, key=repr))
    return ("x", type(v).__name__, repr(v))


def okey(v):
    """Like ckey but object member order is significant."""
    if isinstance(v, list):
        return ("a",) + tuple(okey(x) for x in v)
    if isinstance(v, dict):
        return ("o",) + tuple(
            ((("k", k) if isinstance(k, str) else ("K", repr(k))), okey(x))
            for k, x in v.items()
        )
    return ckey(v)


def h64(obj):
    """Deterministic 64-bit hash of any repr-able structure."""
    return int.from_bytes(
        hashlib.blake2b(repr(obj).encode("utf-8", "surrogatepass"), digest_size=8).digest(),
        "big",
    )


def jdump(v):
    """JSON text for evidence/replays; falls back to repr for non-JSON."""
    try:
        return json.dumps(v, ensure_ascii=True, sort_keys=False)
    except (TypeError, ValueError):
        return repr(v)


def jsonable(v, depth=0, _path=()):
    """Convert a possibly non-JSON Python value into something json.dump accepts (cycles and absurd depth are cut)."""
    if v is None or isinstance(v, (bool, int, float, str)):
        return v
    if id(v) in _path:
        return "<cyclic>"
    if depth > 60:
        return "<deeper: too deep to print>"
    if isinstance(v, (list, tuple)):
        return [jsonable(x, depth + 1, _path + (id(v),)) for x in v]
    if isinstance(v, dict):
        out = {}
        for k, x in v.items():
            out[k if isinstance(k, str) else "<non-str key %r>" % (k,)] = jsonable(x, depth + 1, _path + (id(v),))
        return out
    return "<%s %r>" % (type(v).__name__, v)


def deep_copy(v):
    """Alias-free copy of a JSON value (own implementation, not copy.deepcopy)."""
    if isinstance(v, list):
        return [deep_copy(x) for x in v]
    if isinstance(v, dict):
        return {k: deep_copy(x) for k, x in v.items()}
    return v


def mutable_ids(v, acc=None):
    """ids of all mutable containers inside v."""
    if acc is None:
        acc = set()
    if isinstance(v, (list, dict)):
        acc.add(id(v))
        for x in v.values() if isinstance(v, dict) else v:
            mutable_ids(x, acc)
    return acc
