#!/usr/bin/env python3
"""Regenerate the table of section 12.4 of DESIGN.md from known_findings.json (order of the file = order of discovery)."""
import json, re
k = json.load(open("/verif/known_findings.json"))
rows = ["| property | commit | what failed |", "|---|---|---|"]
for e in k:
    if e["status"] == "fixed":
        rows.append("| %s | %s | %s |" % (e["property"], e["commit"], e["what"].replace("|", "\\|")))
s = open("/verif/DESIGN.md").read()
a = s.index("| property | commit | what failed |")
b = s.index("\n\n", a)
open("/verif/DESIGN.md", "w").write(s[:a] + "\n".join(rows) + s[b:])
print(len(rows) - 2, "rows")
