"""C19 - projection returns exactly the selected values, nothing more, in place."""
import itertools

from .. import univ
from ..gen import spell
from ..jsonutil import ckey, deep_copy, jeq, jeq_ordered
from ..ref import rpath
from ..ref.rpath import C, D, I, N, Q, S, W
from .common import chunks, shrink_doc, tup

ID = "C19"
RULE = (
    "documents: every container of Univ(1,3) over leaves {0,'x'} and keys {a,b}, every 12th document of Univ(2,2) (thorough: "
    "every 3rd), and hand-picked documents with falsy leaves (0,false,'',null,[],{}) and index-like keys, 12-element arrays, strings holding JSON text; match queries "
    "{$, $.*, $..*, $.a, $[1]}; every list of 1..2 (thorough 3) relative queries from a 21-query pool (names, indices, "
    "slices with positive step, wildcards, two-step paths, descendants), each selecting strictly below the match; lists whose "
    "per-array selections are not ascending are out of scope and skipped; three projection styles. "
    "state = distinct (document, match query, expression list, style); non-trivial = at least one projection produced"
)
ASSUMPTIONS = [
    "reference projection mc.props.c19.model_* written from the property statement (rank of an index among the indices "
    "selected in that array), selected nodes from mc/ref/rpath.py",
    "when one selected node is an ancestor of another the structural comparison of RELATIVE/ROOT is skipped (the statement's "
    "rank rule is not defined inside a wholly selected value); FLAT and 'document not modified' are still checked",
]

MATCH_QUERIES = [Q(), Q(C(W)), Q(D(W)), Q(C(N("a"))), Q(C(I(1)))]
REL = [Q(C(N("a"))), Q(C(N("b"))), Q(C(I(0))), Q(C(I(1))), Q(C(I(-1))), Q(C(S(0, 2, None))), Q(C(S(None, None, 2))),
       Q(C(S(1, None, None))), Q(C(W)), Q(C(N("a")), C(N("b"))), Q(C(N("a")), C(I(0))), Q(C(W), C(N("a"))),
       Q(C(I(0)), C(N("a"))), Q(C(N("a")), C(W)), Q(C(W), C(I(1))), Q(D(N("a"))), Q(D(I(0))),
       # indices of two digits next to smaller ones (order of a sparse array is numeric)
       Q(C(I(2))), Q(C(I(10))), Q(C(S(8, None, None))), Q(C(N("a")), C(I(10)))]
EXTRA = [
    {"a": 0, "b": False, "c": "", "d": None, "e": [], "f": {}},
    [0, False, "", None, [], {}],
    {"a": [0, False, ""], "b": {"a": None, "b": [[], {}]}},
    {"1": "one", "a": ["x", {"1": "y", "a": 0}], "b": {"1": [1, 2, 3]}},
    [[1, 2, 3], [4, [5, 6]], {"a": [7, 8, 9], "b": {"a": {"b": 10}}}],
    {"a": {"b": {"a": {"b": 1}}}, "b": [[[0]]]},
    {"a": [10, 11, 12], "b": [{"a": 1, "b": 2}, {"a": 3}]},
    [{"a": [1, {"b": 2}]}, [0, [1, [2, [3]]]]],
    [{"a": i, "b": [i]} for i in range(12)],
    {"a": [[i] for i in range(12)], "b": [0, 1, 2]},
    # string values whose content is JSON text of a container: a string match is not a container
    {"a": '{"a": 2, "b": [3, 4]}', "b": "[5, 6]"},
    ['{"a": 1, "b": 2}', "[0, [1]]", {"a": '["x"]'}],
]


def docs(tier):
    out = [d for d in univ.univ(1, 3, (0, "x"), ("a", "b")) if isinstance(d, (list, dict))]
    step = 12 if tier == "quick" else 3
    out += [d for i, d in enumerate(univ.univ(2, 2, (0, "x"), ("a", "b"))) if i % step == 0 and isinstance(d, (list, dict))]
    return out + [deep_copy(d) for d in EXTRA]


def expr_lists(tier):
    out = [[i] for i in range(len(REL))]
    out += [[i, j] for i in range(len(REL)) for j in range(len(REL))]
    if tier == "thorough":
        small = [0, 2, 3, 5, 8, 9, 10, 15]
        out += [[i, j, k] for i in small for j in small for k in small]
    return out


# ---------------------------------------------------------------------------- model


def selected(match_val, exprs):
    out = []
    for q in exprs:
        out.extend(rpath.nodelist(q, match_val))
    return out


def ascending(nodes, prefix=()):
    """Per-array selections (in selection order) are ascending."""
    last = {}
    for loc, _ in nodes:
        full = prefix + loc
        for i, p in enumerate(full):
            if isinstance(p, int):
                key = full[:i]
                if key in last and p < last[key]:
                    return False
                last[key] = p
    return True


def overlapping(nodes):
    locs = [loc for loc, _ in nodes]
    for a in locs:
        for b in locs:
            if len(a) < len(b) and b[:len(a)] == a:
                return True
    return False


def build(nodes, prefix=()):
    """Trie -> value with array indices replaced by their rank among the selected indices."""
    root = {}
    for loc, val in nodes:
        full = prefix + loc
        cur = root
        inside_selected_ancestor = False
        for p in full[:-1]:
            nxt = cur.get(p)
            if nxt is not None and nxt[0] == "leaf":
                inside_selected_ancestor = True  # already contained in a wholly selected ancestor
                break
            if nxt is None:
                nxt = ("node", {})
                cur[p] = nxt
            cur = nxt[1]
        if not inside_selected_ancestor:
            cur[full[-1]] = ("leaf", val)

    def conv(children):
        if not children:
            return {}
        keys = list(children)
        if isinstance(keys[0], int):
            return [conv1(children[k]) for k in sorted(keys)]
        return {k: conv1(children[k]) for k in keys}

    def conv1(n):
        return n[1] if n[0] == "leaf" else conv(n[1])

    return conv(root)


MAXIMAL = []  # side output of model(): per projection, the maximal object-path nodes (see below)


def model(doc, mq, exprs, style):
    """-> (list of projections, skip_structure flag) or None when out of scope."""
    out = []
    overlap = False
    maximal = MAXIMAL
    del maximal[:]
    for mloc, mval in rpath.nodelist(mq, doc):
        if not isinstance(mval, (list, dict)):
            continue
        nodes = selected(mval, exprs)
        if any(loc == () for loc, _ in nodes):
            return None
        if not nodes:
            continue
        prefix = mloc if style == "ROOT" else ()
        if not ascending(nodes, prefix):
            return None
        if overlapping(nodes):
            overlap = True
        if style == "FLAT":
            out.append([v for _, v in nodes])
        else:
            out.append(build(nodes, prefix))
        # selected nodes that are not inside another selected node and are reached through object members only:
        # whatever the overlap, the projection must hold exactly their value at their location
        locs = [loc for loc, _ in nodes]
        mx = []
        for loc, val in nodes:
            full = prefix + loc
            if all(isinstance(t, str) for t in full) and not any(len(o) < len(loc) and loc[:len(o)] == o for o in locs):
                mx.append((full, val))
        maximal.append(mx)
    return out, overlap


def selftest():
    data = {"categories": [{"name": "footwear", "products": [
        {"title": "Trainers", "description": "Fashionable trainers.", "price": 89.99},
        {"title": "Barefoot Trainers", "description": "Running trainers.", "price": 130.00, "social": {"likes": 12, "shares": 7}}]},
        {"name": "headwear", "products": [{"title": "Cap", "description": "Baseball cap", "price": 15.00},
                                          {"title": "Beanie", "description": "Winter running hat.", "price": 9.00}]}],
        "price_cap": 10}
    mq = Q(D(N("products")), C(W))
    r, _ = model(data, mq, [Q(C(N("title"))), Q(C(N("price")))], "RELATIVE")
    assert r == [{"title": "Trainers", "price": 89.99}, {"title": "Barefoot Trainers", "price": 130.0},
                 {"title": "Cap", "price": 15.0}, {"title": "Beanie", "price": 9.0}]
    r, _ = model(data, mq, [Q(C(N("title"))), Q(C(N("social")), C(N("shares")))], "RELATIVE")
    assert r == [{"title": "Trainers"}, {"title": "Barefoot Trainers", "social": {"shares": 7}}, {"title": "Cap"}, {"title": "Beanie"}]
    r, _ = model(data, mq, [Q(C(N("title"))), Q(C(N("social")), C(N("shares")))], "FLAT")
    assert r == [["Trainers"], ["Barefoot Trainers", 7], ["Cap"], ["Beanie"]]
    mq2 = Q(D(N("products")), C(("filter", ("test", Q(C(N("social")), root="@")))))
    r, _ = model(data, mq2, [Q(C(N("title"))), Q(C(N("social")), C(N("shares")))], "ROOT")
    assert r == [{"categories": [{"products": [{"title": "Barefoot Trainers", "social": {"shares": 7}}]}]}]
    r, _ = model([10, 11, 12, 13], Q(), [Q(C(I(1))), Q(C(I(3)))], "RELATIVE")
    assert r == [[11, 13]]
    assert model([10, 11], Q(), [Q(C(I(1))), Q(C(I(0)))], "RELATIVE") is None
    return 6


def bounds(tier, seed):
    return {"docs": len(docs(tier)), "match_queries": len(MATCH_QUERIES), "expr_lists": len(expr_lists(tier)), "styles": 3}


def plan(tier, seed):
    n = len(docs(tier))
    return [("P", tier, lo, min(n, lo + (4 if tier == "quick" else 3))) for lo in range(0, n, 4 if tier == "quick" else 3)]


def run_shard(shard, acc):
    _, tier, lo, hi = shard
    els = expr_lists(tier)
    for doc in docs(tier)[lo:hi]:
        for mi in range(len(MATCH_QUERIES)):
            for el in els:
                for style in ("RELATIVE", "FLAT", "ROOT"):
                    _check(doc, mi, el, style, acc)


_TEXTS = {}


def _text(q):
    k = id(q)
    if k not in _TEXTS:
        _TEXTS[k] = spell.text(q)
    return _TEXTS[k]


def _check(doc, mi, el, style, acc, record=True):
    import jsonpath
    from jsonpath import Projection

    mq = MATCH_QUERIES[mi]
    exprs = [REL[i] for i in el]
    m = model(doc, mq, exprs, style)
    if m is None:
        if record:
            acc.count("skipped.out-of-scope")
        return
    exp, overlap = m
    maximal = [list(x) for x in MAXIMAL]
    snapshot = deep_copy(doc)
    work = deep_copy(doc)
    bad = None
    try:
        texts = [_text(q) for q in exprs]
        # alternate between string expressions and pre-compiled paths
        args = texts if (mi + len(el)) % 2 == 0 else [jsonpath.compile(t) for t in texts]
        got = list(jsonpath.query(_text(mq), work).select(*args, projection=getattr(Projection, style)))
        if not jeq(work, snapshot):
            bad = ("document-modified", snapshot, work)
        elif len(got) != len(exp):
            bad = ("projection-count", exp, got)
        elif style == "FLAT" or not overlap:
            for g, x in zip(got, exp):
                if not jeq(g, x):
                    bad = ("projection", exp, got)
                    break
        else:
            # overlapping selections: the rank rule is undefined inside a wholly selected value, but every selected
            # node that is not inside another one and is reached through object members only must be there, whole
            for g, mx in zip(got, maximal):
                for full, val in mx:
                    cur = g
                    ok = True
                    for t in full:
                        if isinstance(cur, dict) and t in cur:
                            cur = cur[t]
                        else:
                            ok = False
                            break
                    if not ok or not jeq(cur, val):
                        bad = ("projection-overlap", {"location": list(full), "value": val}, g)
                        break
                if bad:
                    break
    except Exception as e:  # noqa: BLE001
        if not jeq(work, snapshot):
            bad = ("document-modified", snapshot, work)
        else:
            bad = ("exception", exp, "%s: %s" % (type(e).__name__, e))
    if record:
        acc.case("P", (ckey(snapshot), mi, tuple(el), style), outcome=tuple(ckey(x) for x in exp), nontrivial=bool(exp))
        acc.count("%s.%s" % (style, "some" if exp else "none"))
        if overlap:
            acc.count("overlap")
        if acc.evals % 4000 == 1:
            acc.sample("P", {"doc": snapshot, "match": _text(mq), "exprs": [_text(q) for q in exprs], "style": style, "expected": exp})
    if bad:
        acc.violation("P", bad[0], {"doc": snapshot, "match": mi, "exprs": list(el), "style": style,
                                    "match_text": _text(mq), "expr_texts": [_text(q) for q in exprs]},
                      expected=bad[1], observed=bad[2])


REQUIRE = {"RELATIVE.some": 100, "FLAT.some": 100, "ROOT.some": 100, "RELATIVE.none": 10, "overlap": 10, "skipped.out-of-scope": 10}


def check_case(sub, case, acc):
    _check(case["doc"], case["match"], case["exprs"], case["style"], acc, record=False)


def shrink(sub, case):
    el = case["exprs"]
    for i in range(len(el)):
        if len(el) > 1:
            c = dict(case)
            c["exprs"] = el[:i] + el[i + 1:]
            c["expr_texts"] = [_text(REL[j]) for j in c["exprs"]]
            yield c
    for d2 in shrink_doc(case["doc"]):
        if isinstance(d2, (list, dict)):
            c = dict(case)
            c["doc"] = d2
            yield c
    if case["match"] != 0:
        c = dict(case)
        c["match"] = 0
        c["match_text"] = "$"
        yield c


def signature(sub, case, v):
    kinds = []
    for i in case["exprs"]:
        q = REL[i]
        kinds.append("/".join(("d:" if seg[0] == "desc" else "") + seg[1][0][0] for seg in q[2]))
    obs = v.get("observed")
    exc = ""
    if v["kind"] == "exception":
        exc = "." + str(obs).split(":")[0]
    return "C19.%s.%s.match(%s).exprs(%s)%s" % (v["kind"], case["style"], case.get("match_text"), ",".join(kinds), exc)
