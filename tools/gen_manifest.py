#!/usr/bin/env python3
"""Regenerate /verif/MANIFEST.json from the table below (keeps it valid at all times)."""
import json
import os

BASE = "cd /repo && PYTHON_JSONPATH_VERIF= /venv/bin/python -m pytest -ra -q -p no:cacheprovider --timeout=900 --continue-on-collection-errors"

# property id -> (engine, technique, level text, level note, design ref)
CHECKS = {
    "C01": (
        "E-PROD",
        "bounded-exhaustive enumeration of query ASTs x spellings x documents executed on the real engine against an RFC 9535 reference evaluator",
        "Four complete levels: (A) every single-segment query, child and descendant, over the full selector alphabet (names, indices -5..5 and +-(2^53-1), the full 9x9x6 slice table incl. step 0, wildcard) on every document of Univ(1,3) (thorough: Univ(2,2), 13k documents) plus scalars/strings/index-like keys; (B) every 2- (3-) selector list over a 12-selector alphabet; (C) every 2- (3-) segment pipeline of child/descendant segments on the 1522 documents of Univ(2,2); (D) every spelling (dot/bracket, both quote styles, minimal/\\uXXXX/surrogate-pair escapes, <=1 (2) blanks of each kind at every ABNF S position) of all names over a 25-character alphabet up to length 2 and of the B and C(k=2) ASTs. Results through compile().findall, finditer and env.findall must equal the reference nodelist (typed, ordered, duplicates kept). Exhaustive within these bounds.",
        "Trusted: mc/ref/rpath.py (RFC 9535 2.3/2.5 written out, self-tested on the RFC example tables and against Python slicing each run); mc/gen/spell.py renders only spellings the RFC ABNF allows. Not covered: nesting deeper than 2-3, integers beyond 2^53, names longer than 3 characters.",
        "DESIGN.md section 5 C01",
    ),
    "C12": (
        "E-HIST",
        "explicit-state exploration of all Query operation histories up to a depth bound on real Query objects, lock-step against a list model",
        "Every history of Query operations (all letters incl. aliases, every count from -1 to len+1, on every live query created by take/tee) up to depth 3 (quick) / 4, and 5 without aliases (thorough), for every match-sequence length 0..4/5, is executed on fresh real Query objects; every step's observation and the final drain of every live query must equal the list-slicing model. Exhaustive within those bounds; chains longer than the bound are not covered.",
        "Trusted: mc/ref/rquery.py (self-tested each run); match sequences come from jsonpath.query('$[*]', list); views are drained completely when called.",
        "DESIGN.md section 5 C12",
    ),
}

PENDING_REASON = "check not built yet in this session (work in progress; see DESIGN.md section 5 for the planned bounded-exhaustive check)"


def main():
    here = os.path.dirname(os.path.dirname(os.path.abspath(__file__)))
    ids = [json.loads(l)["id"] for l in open(os.path.join(here, "properties.jsonl"))]
    checks = []
    na = []
    for i in ids:
        if i in CHECKS:
            eng, tech, text, note, ref = CHECKS[i]
            checks.append(
                {
                    "property_id": i,
                    "quick_cmd": "./check %s quick" % i,
                    "thorough_cmd": "./check %s thorough" % i,
                    "evidence_file": "/verif/evidence/%s.json" % i,
                    "replay_cmd_template": "./check %s --replay {path}" % i,
                    "engine": eng,
                    "level_claimed": {"category": "model_checking", "text": text, "design_ref": ref},
                    "level_note": note,
                    "technique": tech,
                }
            )
        else:
            na.append({"property_id": i, "reason": PENDING_REASON})
    m = {
        "version": 1,
        "setup_cmd": "cd /verif && /venv/bin/python -B -c \"import sys; sys.path.insert(0,'/verif'); import mc.run\" && chmod +x check",
        "hooks": {
            "guard": "PYTHON_JSONPATH_VERIF",
            "enable": "no hooks are compiled into the repository: checks import /repo's working tree directly (sys.path[0]=/repo) and instrument it from outside (subclassing, proxies, sys.setprofile); the guard variable is exported by ./check for uniformity only",
            "baseline_off_cmd": BASE,
            "source_commits": [],
            "add_only": True,
        },
        "engines": [
            {"name": "E-HIST", "path": "mc/run.py + mc/props/*", "serves_properties": ["C05", "C09", "C12", "C14", "C15"],
             "kind_free_text": "hand-written explicit-state explorer: all operation histories up to a depth bound, rebuilt on fresh real objects, lock-step against a reference model"},
            {"name": "E-PROD", "path": "mc/run.py + mc/props/*", "serves_properties": ["C01", "C02", "C03", "C04", "C06", "C07", "C10", "C11", "C13", "C16", "C17", "C18", "C19", "C20"],
             "kind_free_text": "bounded-exhaustive enumeration of programs x spellings x inputs x configurations executed on the real code against independent reference models"},
            {"name": "E-SCHED", "path": "mc/sched.py", "serves_properties": ["C08", "C09"],
             "kind_free_text": "stateless schedule exploration with iterative context bounding over iterators, coroutines (own trampoline) and baton-serialised OS threads"},
        ],
        "checks": checks,
        "not_applicable": na,
        "notes": "All checks: ./check <ID> quick|thorough; VERIF_SEED selects which complete extra block of the thorough space the quick tier adds; exit 2 = harness error (never a verdict). Known findings: /verif/known_findings.json.",
    }
    if not na:
        del m["not_applicable"]
        m["not_applicable"] = []
    with open(os.path.join(here, "MANIFEST.json"), "w") as f:
        json.dump(m, f, indent=1)


if __name__ == "__main__":
    main()
