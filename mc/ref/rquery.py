"""Reference model of the Query iterator: plain list slicing (docs/query.md).

A model state is a tuple of live queries, each a tuple of the remaining elements.
"""

LIMIT = ("limit", "head", "first")
SKIP = ("skip", "drop")
TAIL = ("tail", "last")
FIRST1 = ("first_one", "one")
VIEWS = ("values", "locations", "items", "pointers")
COUNTED = LIMIT + SKIP + TAIL + ("take",)


def step(state, qi, op, n=None):
    """Return (new_state, observation). Observation kinds:
    ("self",) | ("new",) | ("tee", k) | ("match", elem|None) | ("list", view, elems) | ("valueerror",)
    """
    q = state[qi]
    if op in COUNTED or op == "tee":
        if n < 0:
            return state, ("valueerror",)
    if op in LIMIT:
        return _set(state, qi, q[:n]), ("self",)
    if op in SKIP:
        return _set(state, qi, q[n:]), ("self",)
    if op in TAIL:
        keep = q[len(q) - n:] if n < len(q) else q
        if n == 0:
            keep = ()
        return _set(state, qi, keep), ("self",)
    if op == "take":
        return _set(state, qi, q[n:]) + (q[:n],), ("new",)
    if op == "tee":
        rest = state[:qi] + state[qi + 1:]
        return rest + tuple(q for _ in range(n)), ("tee", n)
    if op in FIRST1:
        if q:
            return _set(state, qi, q[1:]), ("match", q[0])
        return state, ("match", None)
    if op == "last_one":
        if q:
            return _set(state, qi, ()), ("match", q[-1])
        return state, ("match", None)
    if op in VIEWS or op == "iter":
        return _set(state, qi, ()), ("list", op, q)
    raise ValueError(op)


def _set(state, qi, q):
    return state[:qi] + (tuple(q),) + state[qi + 1:]


def selftest():
    s = ((0, 1, 2, 3),)
    n = 0
    s1, o = step(s, 0, "limit", 2); assert s1 == ((0, 1),) and o == ("self",); n += 1
    s1, o = step(s, 0, "skip", 3); assert s1 == ((3,),); n += 1
    s1, o = step(s, 0, "skip", 9); assert s1 == ((),); n += 1
    s1, o = step(s, 0, "tail", 2); assert s1 == ((2, 3),); n += 1
    s1, o = step(s, 0, "tail", 9); assert s1 == ((0, 1, 2, 3),); n += 1
    s1, o = step(s, 0, "tail", 0); assert s1 == ((),); n += 1
    s1, o = step(s, 0, "take", 1); assert s1 == ((1, 2, 3), (0,)) and o == ("new",); n += 1
    s1, o = step(s, 0, "take", 9); assert s1 == ((), (0, 1, 2, 3)); n += 1
    s1, o = step(s, 0, "tee", 2); assert s1 == ((0, 1, 2, 3), (0, 1, 2, 3)) and o == ("tee", 2); n += 1
    s1, o = step(s, 0, "tee", 0); assert s1 == (); n += 1
    s1, o = step(s, 0, "first_one"); assert s1 == ((1, 2, 3),) and o == ("match", 0); n += 1
    s1, o = step(((),), 0, "one"); assert o == ("match", None); n += 1
    s1, o = step(s, 0, "last_one"); assert s1 == ((),) and o == ("match", 3); n += 1
    s1, o = step(s, 0, "limit", -1); assert s1 == s and o == ("valueerror",); n += 1
    s1, o = step(s, 0, "values"); assert s1 == ((),) and o == ("list", "values", (0, 1, 2, 3)); n += 1
    # docs/query.md examples: skip(5).limit(10) on 20 -> 5..14 ; tail(5) -> last five
    big = (tuple(range(20)),)
    s1, _ = step(big, 0, "skip", 5); s1, _ = step(s1, 0, "limit", 10); assert s1 == (tuple(range(5, 15)),); n += 1
    s1, _ = step(big, 0, "tail", 5); assert s1 == (tuple(range(15, 20)),); n += 1
    return n
