"""C05 - JSON Patch application conforms to RFC 6902 for every document and patch.

E-HIST: the document is the state; the operation menu is recomputed from the model
state; every history up to the bound is applied to a fresh copy by the real JSONPatch
and compared with the functional reference model mc.ref.rpatch.
"""
from .. import univ
from ..jsonutil import ckey, deep_copy, is_json, jeq
from ..ref import rpatch, rptr
from .common import chunks, type_tag

ID = "C05"
RULE = (
    "start documents: every value of Univ(2,2) over keys {a,'1'} (thorough also '-') and leaves {1,true}, plus hand-picked "
    "colliding documents; per model state the menu is: every existing location, every one-step extension (new key, index==len, "
    "'-', len+1, '01', '1' on objects) and a non-existent deep path; ops add/replace/test x 6 values, remove, move/copy x all "
    "(from,path) pairs incl. into-own-child, onto-self and the root. All histories of length 1 from every start document, "
    "length 2 from a subset (full menu), length 3 over a reduced menu (thorough). "
    "STR: documents that are, hold, or are turned by an add/replace of the root into a JSON string whose content looks like JSON "
    "text (6 such strings), followed by every operation over 7 paths. "
    "state = distinct (start document, history); non-trivial = the reference applies the whole history without error"
)
ASSUMPTIONS = [
    "reference model mc/ref/rpatch.py (RFC 6902 section 4, functional), self-tested on RFC 6902 Appendix A",
    "documents compared as JSON values: typed, objects unordered, dict keys must be str",
    "not generated: remove of the root, move from the root",
    "a non-test failure may be reported by any JSONPatchError; a failed test must be JSONPatchTestFailure",
]

VALUES = [1, True, "s", [], {"a": [1]}, None]
EXTRA_START = [
    {"a": [1, 2], "1": {"a": 1}}, [[1, 2], {"1": 1}], {"-": [1], "a": {"-": 2}}, {"a": {"1": [True], "01": 2}},
    [1, [True, ["s"]]], {"a": 1, "b": 1.0, "c": True, "d": [1], "e": [True]}, [], {}, 1, "s",
    {"a": "str", "b": None}, ["x", "y", "z", "w", "v", "u", "t", "r", "q", "p", "o"],
    # names / indices of which one is a string prefix of another ('a' vs 'ab', '1' vs '10'): move/copy between them
    {"a": 1, "ab": {"a": 2}, "a/b": {"x": 3}}, [0, {"v": 1}, 2, 3, 4, 5, 6, 7, 8, 9, {"v": 10}],
]


def selftest():
    return rpatch.selftest()


def start_docs(tier):
    keys = ("a", "1") if tier == "quick" else ("a", "1", "-")
    return list(univ.univ(2, 2, (1, True), keys)) + [deep_copy(d) for d in EXTRA_START]


def menu_paths(doc):
    paths = []
    for loc, v in univ.nodes(doc):
        toks = rptr.loc_tokens(loc)
        paths.append(toks)
        if isinstance(v, dict):
            paths.append(toks + ["n"])
            for k in ("1", "-", "01"):
                if k not in v:
                    paths.append(toks + [k])
            # a missing member whose name is an existing member's name behind the pointer-extension prefixes ~ and #
            for k in list(v)[:1]:
                for pre in ("~", "#"):
                    if pre + k not in v:
                        paths.append(toks + [pre + k])
        elif isinstance(v, list):
            n = len(v)
            paths.append(toks + ["-"])
            paths.append(toks + [str(n)])
            paths.append(toks + [str(n + 1)])
            paths.append(toks + ["01"])
            if n >= 1:
                paths.append(toks + ["00"])
                # the pointer extension '#<index>' (index of an element) is not an RFC 6901 array index
                paths.append(toks + ["#0"])
                paths.append(toks + ["#%d" % n])
                # a negative number is not an RFC 6901 array index (JSONPointer resolves it from the end; RFC 6902 does not)
                paths.append(toks + ["-1"])
                # ... nor is it one on the way to the target: through the last element, when that is a container
                last = v[-1]
                if isinstance(last, dict) and last:
                    paths.append(toks + ["-1", next(iter(last))])
                elif isinstance(last, list):
                    paths.append(toks + ["-1", "0" if last else "-"])
                # '-0' is neither canonical nor a spelling of 0
                paths.append(toks + ["-0"])
                # canonical digits followed by a line break are not an index (int() and '$' both forgive the line break)
                paths.append(toks + ["0\n"])
        else:
            paths.append(toks + ["0"])
            paths.append(toks + ["x"])
    paths.append(["zz", "y"])
    seen = set()
    out = []
    for p in paths:
        t = tuple(p)
        if t not in seen:
            seen.add(t)
            out.append(p)
    return out


def menu(doc, reduced=False):
    paths = menu_paths(doc)
    texts = [rptr.encode(p) for p in paths]
    ops = []
    values = VALUES if not reduced else [True, {"a": [1]}]
    for t in texts:
        for name in ("add", "replace", "test"):
            for v in values:
                ops.append({"op": name, "path": t, "value": v})
        if t != "":
            ops.append({"op": "remove", "path": t})
    froms = texts if not reduced else texts[::2]
    tos = texts if not reduced else texts[1::2] + [""]
    for f in froms:
        for t in tos:
            if f != "":
                ops.append({"op": "move", "from": f, "path": t})
            ops.append({"op": "copy", "from": f, "path": t})
    return ops


def bounds(tier, seed):
    return {"start_docs": len(start_docs(tier)), "len1": "all start docs, full menu",
            "len2": "%d start docs, full menu" % (3 if tier == "quick" else len(len2_docs("thorough"))),
            "len3": "none" if tier == "quick" else "5 start docs, reduced menu"}


LEN2_QUICK = [0, 2, 3, 5]

# A document that is (or that an operation turns into) a JSON string whose content looks like JSON text: jsonpath/_data.py
# parses a str argument as JSON text, so such a value must never be handed to a text-accepting entry point again.
JSONISH = ["[1]", "{\"a\": 1}", "{", "[1, 2", "\"x\"", "1"]
STR_PATHS = ["", "/0", "/a", "/-", "/1", "/0/0", "/a/b"]


def str_histories():
    out = []
    second = []
    for t in STR_PATHS:
        for name in ("add", "replace", "test"):
            for v in (1, "[1]", [1]):
                second.append({"op": name, "path": t, "value": v})
        if t:
            second.append({"op": "remove", "path": t})
        for f in STR_PATHS:
            second.append({"op": "copy", "from": f, "path": t})
            if f:
                second.append({"op": "move", "from": f, "path": t})
    for js in JSONISH:
        # (a) the string is the document itself, given as JSON text; (b) an operation makes it the document
        for op2 in second:
            out.append((("text", js), [op2]))
            for start in ({}, [1], {"a": [1]}):
                for first in ({"op": "add", "path": "", "value": js}, {"op": "replace", "path": "", "value": js}):
                    out.append((("value", start), [first, op2]))
        # (c) the string sits inside the document and an operation addresses below it
        for op2 in second:
            if op2["path"].startswith("/a") or op2.get("from", "").startswith("/a"):
                out.append((("value", {"a": js}), [op2]))
    return out


def plan(tier, seed):
    shards = []
    n = len(start_docs(tier))
    for part in chunks(list(range(n)), 24 if tier == "quick" else 48):
        shards.append(("L1", tier, part[0], part[-1] + 1))
    n2 = len(len2_docs("thorough"))
    nd = 3 if tier == "quick" else n2
    for i in range(nd):
        for k in range(16):
            shards.append(("L2", tier, i, k, 16))
    ns = len(str_histories())
    for lo in range(0, ns, 600):
        shards.append(("STR", lo, min(ns, lo + 600)))
    if tier == "quick":
        # one extra complete length-2 block chosen by the seed (a start document of the thorough set)
        # (half of that document's length-2 histories: the first operations of even or odd rank, by the seed)
        for k in range(16):
            if k % 2 == (seed // (n2 - 3)) % 2:
                shards.append(("L2", "thorough", 3 + seed % (n2 - 3), k, 16))
    else:
        # (length 3 is cubic in the menu: five documents, 48 shards each - sized from measured shard times after the menu
        # gained the '-1/x' and '-0' paths; the sixth document, five members and two arrays, took a shard past its budget)
        for i in range(5):
            for k in range(48):
                shards.append(("L3", i, k, 48))
    return shards


def len2_docs(tier):
    ex = [deep_copy(d) for d in EXTRA_START]
    small = [d for d in univ.univ(1, 2, (1, True), ("a", "1")) if isinstance(d, (list, dict))]
    return ex[:6] + small[::2][:18]


def run_shard(shard, acc):
    kind = shard[0]
    if kind == "STR":
        import json

        for (form, start), ops in str_histories()[shard[1]:shard[2]]:
            if form == "text":
                _run("STR", json.loads(json.dumps(start)), ops, acc, as_text=json.dumps(start))
            else:
                _run("STR", start, ops, acc)
    elif kind == "L1":
        _, tier, lo, hi = shard
        for doc in start_docs(tier)[lo:hi]:
            for op in menu(doc):
                _run("L1", doc, [op], acc)
    elif kind == "L2":
        _, tier, i, k, nk = shard
        doc = len2_docs(tier)[i]
        ops1 = menu(doc)
        for j, op1 in enumerate(ops1):
            if j % nk != k:
                continue
            try:
                mid = rpatch.apply_op(deep_copy(doc), op1)
            except rpatch.PatchError:
                continue  # length-1 history already covers the failing first op
            for op2 in menu(mid):
                _run("L2", doc, [op1, op2], acc)
    elif kind == "L3":
        _, i, k, nk = shard
        doc = len2_docs("thorough")[i]
        ops1 = menu(doc, reduced=True)
        for j, op1 in enumerate(ops1):
            if j % nk != k:
                continue
            try:
                mid = rpatch.apply_op(deep_copy(doc), op1)
            except rpatch.PatchError:
                continue
            for op2 in menu(mid, reduced=True):
                try:
                    mid2 = rpatch.apply_op(deep_copy(mid), op2)
                except rpatch.PatchError:
                    continue
                for op3 in menu(mid2, reduced=True):
                    _run("L3", doc, [op1, op2, op3], acc)


def _run(sub, doc, ops, acc, record=True, as_text=None):
    from jsonpath import JSONPatch
    from jsonpath import patch as patchmod
    from jsonpath.exceptions import JSONPatchError, JSONPatchTestFailure

    try:
        exp = ("doc", rpatch.apply(doc, ops))
    except rpatch.TestFailure:
        exp = ("test-failure",)
    except rpatch.PatchError:
        exp = ("error",)
    obs = []
    for route in ("JSONPatch", "patch.apply"):
        d = deep_copy(doc) if as_text is None else as_text
        o = [deep_copy(op) for op in ops]
        try:
            if route == "JSONPatch":
                got = ("doc", JSONPatch(o).apply(d))
            else:
                got = ("doc", patchmod.apply(o, d))
        except JSONPatchTestFailure:
            got = ("test-failure",)
        except JSONPatchError:
            got = ("error",)
        except Exception as e:  # noqa: BLE001
            got = ("exception", "%s: %s" % (type(e).__name__, e))
        obs.append(got)
        if len(ops) > 1:
            break  # the second route only for single operations (it is the same code path)
    bad = None
    for got in obs:
        if exp[0] == "doc":
            if got[0] != "doc":
                bad = ("refused-valid" if got[0] != "exception" else "exception", got)
            elif not is_json(got[1]):
                bad = ("non-json-result", got)
            elif not jeq(got[1], exp[1]):
                bad = ("wrong-document", got)
        elif exp[0] == "test-failure":
            if got[0] != "test-failure":
                bad = ("test-not-failed" if got[0] == "doc" else ("exception" if got[0] == "exception" else "wrong-error-kind"), got)
        else:
            if got[0] == "doc":
                bad = ("accepted-invalid", got)
            elif got[0] == "exception":
                bad = ("exception", got)
        if bad:
            break
    if record:
        acc.case(sub, (ckey(doc), repr(ops)), outcome=(exp[0], ckey(exp[1]) if exp[0] == "doc" else None),
                 nontrivial=exp[0] == "doc", trans=len(ops))
        acc.count("%s.%s" % (ops[-1]["op"], exp[0]))
        if acc.evals % 5000 == 1:
            acc.sample(sub, {"doc": doc, "ops": ops, "expected": list(exp)[:1] + ([exp[1]] if exp[0] == "doc" else [])})
    if bad:
        acc.violation(sub, bad[0], {"doc": doc, "ops": ops, **({"as_text": as_text} if as_text is not None else {})}, expected=list(exp),
                      observed=list(bad[1]) if bad[1][0] != "doc" else ["doc", bad[1][1]])


def REQUIRE(tier):
    req = {}
    for op in ("add", "remove", "replace", "move", "copy", "test"):
        req[op + ".doc"] = 10
        req[op + ".error"] = 10
    req["test.test-failure"] = 10
    return req


def check_case(sub, case, acc):
    _run(sub, case["doc"], case["ops"], acc, record=False, as_text=case.get("as_text"))


def shrink(sub, case):
    if sub == "STR":
        return  # already minimal (one or two operations on a fixed document form)
    doc, ops = case["doc"], case["ops"]
    for i in range(len(ops)):
        if len(ops) > 1:
            yield {"doc": doc, "ops": ops[:i] + ops[i + 1:]}
    # descend into the document when every pointer shares the first token
    ptrs = []
    for op in ops:
        ptrs.append(rptr.parse(op["path"]))
        if "from" in op:
            ptrs.append(rptr.parse(op["from"]))
    if ptrs and all(len(p) >= 2 for p in ptrs) and len({p[0] for p in ptrs}) == 1:
        try:
            sub_doc = rptr.step(doc, ptrs[0][0])
            new_ops = []
            for op in ops:
                o = dict(op)
                o["path"] = rptr.encode(rptr.parse(op["path"])[1:])
                if "from" in op:
                    o["from"] = rptr.encode(rptr.parse(op["from"])[1:])
                new_ops.append(o)
            yield {"doc": sub_doc, "ops": new_ops}
        except rptr.CannotEvaluate:
            pass
    used = {p[0] for p in ptrs if p}
    if isinstance(doc, dict):
        for k in list(doc):
            if k not in used:
                yield {"doc": {k2: v for k2, v in doc.items() if k2 != k}, "ops": ops}
    for i, op in enumerate(ops):
        if "value" in op and op["value"] not in (1, True):
            o = dict(op)
            o["value"] = 1
            yield {"doc": doc, "ops": ops[:i] + [o] + ops[i + 1:]}


def _target_class(doc, toks):
    if not toks:
        return "root"
    try:
        parent = rptr.resolve(doc, toks[:-1])
    except rptr.CannotEvaluate:
        return "missing-parent"
    last = toks[-1]
    if isinstance(parent, dict):
        return "object." + ("existing" if last in parent else "new") + (".intlike" if rptr.canonical_index(last) is not None else "") + (".dash" if last == "-" else "")
    if isinstance(parent, list):
        i = rptr.canonical_index(last)
        if last == "-":
            return "array.dash"
        if i is None:
            return "array.noncanonical"
        if i < len(parent):
            return "array.existing"
        if i == len(parent):
            return "array.len"
        return "array.beyond"
    return "scalar-parent"


def signature(sub, case, v):
    doc, ops = case["doc"], case["ops"]
    parts = []
    cur = doc
    for op in ops:
        s = op["op"]
        if "from" in op:
            s += "(from:%s,to:%s)" % (_target_class(cur, rptr.parse(op["from"])), _target_class(cur, rptr.parse(op["path"])))
        else:
            s += "(%s)" % _target_class(cur, rptr.parse(op["path"]))
        if "value" in op:
            s += "=" + type_tag(op["value"])
        parts.append(s)
        try:
            cur = rpatch.apply_op(deep_copy(cur), op)
        except rpatch.PatchError:
            break
    obs = v.get("observed")
    extra = ""
    if v["kind"] == "exception" and obs:
        extra = "." + str(obs[1]).split(":")[0]
    return "C05.%s.%s%s" % (v["kind"], parts[-1] if parts else "-", extra)
