"""E-SCHED: stateless schedule exploration with iterative context (preemption) bounding.

One explorer, three kinds of 'thread':
  * coroutines driven by our own trampoline (coro.send(None)); suspensions come from
    document proxies whose __getitem_async__ awaits a bare Yield, so the harness owns the
    event loop completely (no asyncio, no timers, no GC-timed callbacks);
  * lazy iterators (a step is one next());
  * OS threads serialised by a baton: scheduling points at every Python function call /
    generator resumption inside <repo>/jsonpath (sys.setprofile 'call' events).
The explorer is the CHESS recursion: run the default schedule (non-preemptive, lowest id
first), then for every choice point and every alternative whose preemption count stays
within the bound, re-run with that prefix.  A prefix that cannot be replayed is a hard error.
"""
import sys
import threading
from collections.abc import Mapping, Sequence


class ReplayError(Exception):
    pass


class Schedule:
    """Replays a prefix of choices, then takes the default choice; records every point."""

    def __init__(self, prefix=()):
        self.prefix = list(prefix)
        self.points = []  # (enabled tuple, chosen, running)

    def choose(self, enabled, running):
        i = len(self.points)
        if i < len(self.prefix):
            c = self.prefix[i]
            if c not in enabled:
                raise ReplayError("choice %r not enabled at point %d (enabled %r)" % (c, i, enabled))
        else:
            c = running if running in enabled else min(enabled)
        self.points.append((tuple(enabled), c, running))
        return c

    def choices(self):
        return [p[1] for p in self.points]

    def preemptions(self):
        return sum(1 for en, c, r in self.points if r in en and c != r)


def explore(execute, bound, on_result, max_schedules=None):
    """Run `execute(schedule)` for every schedule with <= bound preemptions.  Returns stats."""
    stack = [[]]
    n = 0
    max_points = 0
    capped = False
    while stack:
        prefix = stack.pop()
        s = Schedule(prefix)
        res = execute(s)
        n += 1
        max_points = max(max_points, len(s.points))
        on_result(s, res)
        if max_schedules is not None and n >= max_schedules:
            capped = bool(stack)
            break
        pre = 0
        before = []
        for en, c, r in s.points:
            before.append(pre)
            if r in en and c != r:
                pre += 1
        for i in range(len(prefix), len(s.points)):
            en, c, r = s.points[i]
            for alt in en:
                if alt == c:
                    continue
                cost = before[i] + (1 if (r in en and alt != r) else 0)
                if cost <= bound:
                    stack.append([p[1] for p in s.points[:i]] + [alt])
    return {"schedules": n, "max_points": max_points, "capped": capped}


# ---------------------------------------------------------------------------- coroutines


class Yield:
    """A bare awaitable: suspends the awaiting coroutine exactly once."""

    def __await__(self):
        yield self


class AsyncDict(Mapping):
    """A mapping with an asynchronous item getter that suspends at every access."""

    def __init__(self, d):
        self._d = d

    def __getitem__(self, k):
        return self._d[k]

    def __iter__(self):
        return iter(self._d)

    def __len__(self):
        return len(self._d)

    async def __getitem_async__(self, k):
        await Yield()
        return self._d[k]

    def __repr__(self):
        return "AsyncDict(%r)" % (self._d,)


class AsyncList(Sequence):
    def __init__(self, l):
        self._l = l

    def __getitem__(self, i):
        return self._l[i]

    def __len__(self):
        return len(self._l)

    async def __getitem_async__(self, i):
        await Yield()
        return self._l[i]

    def __repr__(self):
        return "AsyncList(%r)" % (self._l,)


def wrap(v):
    """Rebuild a JSON value from Mapping/Sequence classes with __getitem_async__."""
    if isinstance(v, dict):
        return AsyncDict({k: wrap(x) for k, x in v.items()})
    if isinstance(v, list):
        return AsyncList([wrap(x) for x in v])
    return v


def unwrap(v):
    if isinstance(v, AsyncDict):
        return {k: unwrap(x) for k, x in v._d.items()}
    if isinstance(v, AsyncList):
        return [unwrap(x) for x in v._l]
    if isinstance(v, dict):
        return {k: unwrap(x) for k, x in v.items()}
    if isinstance(v, (list, tuple)):
        return [unwrap(x) for x in v]
    return v


def run_coro(coro):
    """Drive a coroutine to completion on the spot (every suspension is resumed at once)."""
    try:
        while True:
            coro.send(None)
    except StopIteration as e:
        return e.value


def drain_async(aiterable):
    out = []
    it = aiterable.__aiter__()
    while True:
        try:
            out.append(run_coro(it.__anext__()))
        except StopAsyncIteration:
            return out


def execute_tasks(make_coros, sched):
    """Run coroutine tasks under `sched`; a step runs one task to its next suspension."""
    coros = make_coros()
    n = len(coros)
    results = [None] * n
    done = [False] * n
    running = None
    while not all(done):
        enabled = [i for i in range(n) if not done[i]]
        c = sched.choose(enabled, running)
        try:
            coros[c].send(None)
        except StopIteration as e:
            results[c] = ("ok", e.value)
            done[c] = True
        except Exception as e:  # noqa: BLE001
            results[c] = ("exc", type(e).__name__, str(e)[:80])
            done[c] = True
        running = c
    return results


def execute_iterators(make_iters, sched):
    """Lazy iterators as threads: a step is one next()."""
    iters = make_iters()
    n = len(iters)
    out = [[] for _ in range(n)]
    done = [False] * n
    running = None
    while not all(done):
        enabled = [i for i in range(n) if not done[i]]
        c = sched.choose(enabled, running)
        try:
            out[c].append(next(iters[c]))
        except StopIteration:
            done[c] = True
        except Exception as e:  # noqa: BLE001
            out[c].append(("exc", type(e).__name__, str(e)[:80]))
            done[c] = True
        running = c
    return out


# ---------------------------------------------------------------------------- OS threads


class ThreadRun:
    """Run callables on real OS threads, serialised by a baton; scheduling points at every Python
    'call' event (function call or generator/coroutine resumption) in files under `root`."""

    def __init__(self, fns, sched, root, line_files=()):
        self.fns = fns
        self.sched = sched
        self.root = root
        self.n = len(fns)
        self.sems = [threading.Semaphore(0) for _ in fns]
        self.main = threading.Semaphore(0)
        self.done = [False] * self.n
        self.results = [None] * self.n
        self.current = None
        self.error = None

    def _profile(self, tid):
        root = self.root

        def prof(frame, event, arg):
            if event == "call" and frame.f_code.co_filename.startswith(root):
                self._point(tid)

        return prof

    def _point(self, tid):
        # hand the baton to the scheduler and wait to be scheduled again
        self.main.release()
        self.sems[tid].acquire()

    def _body(self, tid):
        self.sems[tid].acquire()
        sys.setprofile(self._profile(tid))
        try:
            self.results[tid] = ("ok", self.fns[tid]())
        except BaseException as e:  # noqa: BLE001
            self.results[tid] = ("exc", type(e).__name__, str(e)[:80])
        finally:
            sys.setprofile(None)
            self.done[tid] = True
            self.main.release()

    def run(self):
        threads = [threading.Thread(target=self._body, args=(i,), daemon=True) for i in range(self.n)]
        for t in threads:
            t.start()
        running = None
        try:
            while not all(self.done):
                enabled = [i for i in range(self.n) if not self.done[i]]
                c = self.sched.choose(enabled, running)
                self.sems[c].release()
                if not self.main.acquire(timeout=30):
                    raise RuntimeError("thread scheduler: no progress (deadlock?)")
                running = c
        finally:
            # let any thread still parked run to completion so that nothing is left behind
            for i in range(self.n):
                while not self.done[i]:
                    self.sems[i].release()
                    self.main.acquire(timeout=5)
        for t in threads:
            t.join(timeout=5)
        return self.results


def execute_threads(make_fns, sched, root):
    return ThreadRun(make_fns(), sched, root).run()
