"""RFC 9535 section 2.7 normalized paths: recogniser and printer.  No code from jsonpath.*."""

_SHORT = {"\b": "\\b", "\f": "\\f", "\n": "\\n", "\r": "\\r", "\t": "\\t"}
_HEX = "0123456789abcdef"


def print_name(name):
    out = ["'"]
    for ch in name:
        cp = ord(ch)
        if ch == "'":
            out.append("\\'")
        elif ch == "\\":
            out.append("\\\\")
        elif ch in _SHORT:
            out.append(_SHORT[ch])
        elif cp < 0x20:
            out.append("\\u00" + _HEX[cp >> 4] + _HEX[cp & 15])
        else:
            out.append(ch)
    out.append("'")
    return "".join(out)


def print_index(i):
    if i < 0:
        raise ValueError("normalized paths have non-negative indices")
    if i == 0:
        return "0"
    s = ""
    while i:
        s = "0123456789"[i % 10] + s
        i //= 10
    return s


def print_path(parts):
    out = ["$"]
    for p in parts:
        if isinstance(p, str):
            out.append("[" + print_name(p) + "]")
        else:
            out.append("[" + print_index(p) + "]")
    return "".join(out)


def parse(text):
    """Recognise a normalized path; return its parts or raise ValueError."""
    if not text.startswith("$"):
        raise ValueError("no root identifier")
    i = 1
    n = len(text)
    parts = []
    while i < n:
        if text[i] != "[":
            raise ValueError("expected '[' at %d" % i)
        i += 1
        if i < n and text[i] == "'":
            i += 1
            cur = []
            while True:
                if i >= n:
                    raise ValueError("unterminated name")
                ch = text[i]
                cp = ord(ch)
                if ch == "'":
                    i += 1
                    break
                if ch == "\\":
                    if i + 1 >= n:
                        raise ValueError("dangling escape")
                    e = text[i + 1]
                    if e in "bfnrt":
                        cur.append({"b": "\b", "f": "\f", "n": "\n", "r": "\r", "t": "\t"}[e])
                        i += 2
                    elif e in "'\\":
                        cur.append(e)
                        i += 2
                    elif e == "u":
                        h = text[i + 2:i + 6]
                        if len(h) != 4 or h[:2] != "00" or any(c not in _HEX for c in h):
                            raise ValueError("bad \\u escape %r" % h)
                        v = _HEX.index(h[2]) * 16 + _HEX.index(h[3])
                        if v >= 0x20 or v in (0x08, 0x09, 0x0A, 0x0C, 0x0D):
                            raise ValueError("non-canonical \\u escape %r" % h)
                        cur.append(chr(v))
                        i += 6
                    else:
                        raise ValueError("bad escape \\%s" % e)
                    continue
                if cp < 0x20 or 0xD800 <= cp <= 0xDFFF:
                    raise ValueError("raw control/surrogate character in name")
                cur.append(ch)
                i += 1
            parts.append("".join(cur))
        else:
            j = i
            while j < n and text[j] in "0123456789":
                j += 1
            d = text[i:j]
            if not d or (len(d) > 1 and d[0] == "0"):
                raise ValueError("bad index %r" % d)
            v = 0
            for c in d:
                v = v * 10 + "0123456789".index(c)
            parts.append(v)
            i = j
        if i >= n or text[i] != "]":
            raise ValueError("expected ']' at %d" % i)
        i += 1
    return parts


def selftest():
    n = 0
    # RFC 9535 section 2.7 table 20
    table = [
        ([], "$"), (["a"], "$['a']"), ([1], "$[1]"), ([2], "$[2]"), (["a", "b", 1], "$['a']['b'][1]"),
        (["\u000b"], "$['\\u000b']"), (["\\"], "$['\\\\']"), (["'"], "$['\\'']"), (['"'], "$['\"']"),
        (["\n"], "$['\\n']"), (["\x00"], "$['\\u0000']"), (["\x1f"], "$['\\u001f']"), (["\x7f"], "$['\x7f']"),
        (["é"], "$['é']"), (["𝄞"], "$['𝄞']"), (["/"], "$['/']"), ([""], "$['']"), (["0"], "$['0']"),
    ]
    for parts, text in table:
        assert print_path(parts) == text, (parts, print_path(parts), text)
        assert parse(text) == parts, (text, parse(text))
        n += 1
    for bad in ("$.a", "$[-1]", "$[01]", '$["a"]', "$['\\u000B']", "$['\\u0041']", "$['\\/']", "$[ 'a']", "$['a'", "a", "$['\n']",
                "$['\\u000a']", "$[1", "$['a']x"):
        try:
            parse(bad)
            raise AssertionError(bad)
        except ValueError:
            n += 1
    return n
