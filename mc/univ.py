"""Document universes: *all* JSON values up to (depth, width) over leaf/key alphabets."""
import itertools
from functools import lru_cache

LEAVES4 = (None, True, 1, "a")
LEAVES2 = (1, "a")
LEAVES_ALL = (None, True, False, 0, 1, -1, 2, 1.0, 1.5, "", "a", "b", "ab", "1", "true")


def _ordered_subsets(keys, maxn):
    for n in range(0, maxn + 1):
        for p in itertools.permutations(keys, n):
            yield p


@lru_cache(maxsize=None)
def _univ(depth, width, leaves, keys):
    out = list(leaves)
    if depth == 0:
        return tuple(out)
    sub = _univ(depth - 1, width, leaves, keys)
    for n in range(0, width + 1):
        for combo in itertools.product(sub, repeat=n):
            out.append(("A", combo))
    for ks in _ordered_subsets(keys, min(width, len(keys))):
        for combo in itertools.product(sub, repeat=len(ks)):
            out.append(("O", ks, combo))
    return tuple(out)


def _thaw(v):
    if isinstance(v, tuple):
        if v[0] == "A":
            return [_thaw(x) for x in v[1]]
        return {k: _thaw(x) for k, x in zip(v[1], v[2])}
    return v


def univ(depth, width, leaves=LEAVES4, keys=("a", "b")):
    """Every JSON value with nesting <= depth; fresh objects on each iteration."""
    for v in _univ(depth, width, tuple(leaves), tuple(keys)):
        yield _thaw(v)


def univ_size(depth, width, leaves=LEAVES4, keys=("a", "b")):
    return len(_univ(depth, width, tuple(leaves), tuple(keys)))


def containers(depth, width, leaves=LEAVES4, keys=("a", "b")):
    for v in univ(depth, width, leaves, keys):
        if isinstance(v, (list, dict)):
            yield v


def shapes(depth, width, keys=("a", "b")):
    """Distinct-leaf documents: every shape of univ(depth,width) with leaves numbered."""
    for v in _univ(depth, width, ("L",), tuple(keys)):
        counter = itertools.count(100)

        def fill(x):
            if isinstance(x, tuple):
                if x[0] == "A":
                    return [fill(y) for y in x[1]]
                return {k: fill(y) for k, y in zip(x[1], x[2])}
            return next(counter)

        yield fill(v)


def nodes(doc, loc=()):
    """Pre-order (location tuple, value) of every node; member order = dict order."""
    yield loc, doc
    if isinstance(doc, dict):
        for k, v in doc.items():
            yield from nodes(v, loc + (k,))
    elif isinstance(doc, list):
        for i, v in enumerate(doc):
            yield from nodes(v, loc + (i,))


def subvalues(doc):
    for _, v in nodes(doc):
        yield v


def size(doc):
    return sum(1 for _ in nodes(doc))
