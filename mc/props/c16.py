"""C16 - Relative JSON Pointers are parsed, printed and applied per the draft.

E-PROD, complete product: base pointers (all token sequences up to a depth) x relative
pointer texts (steps x offsets x suffixes, plus the refused spellings).
"""
import itertools

from ..ref import rptr
from .c14 import _synth

ID = "C16"
RULE = (
    "every base pointer of depth<=3 over 10 tokens (built by parsing, by from_parts, or as the result of a previous application) (names, indices 0/1/2/10/12, '~', 'a/b', non-ASCII) x every relative "
    "pointer text: steps 0..depth+1, offset in {none,+-1,+-2,+-10,+-12}, suffix in {'', '#', five pointers with escapes}, "
    "plus the refused spellings (leading zeros, +0/-0, sign without digits). Offsets are generated only where the token "
    "they adjust is a canonical array index. BIG: 4 bases x 9 offsets of 16-20 digits (sums at, just below and beyond 2**53-1, and far "
    "below zero) x steps 0/1 x 3 suffixes. ESC (escape decoding off throughout): bases over 5 tokens holding backslashes / '%' x steps 0..2 x 4 "
    "suffixes; 7 suffixes whose last token ends in white space; 10 final tokens that int() accepts but that are not array indices x "
    "3 offsets (refusal or the token left alone are both accepted, a different token is not). state = distinct (base, relative text); non-trivial = reference defines a result"
)
ASSUMPTIONS = [
    "reference model mc/ref/rptr.py rel_parse/rel_apply, self-tested on the draft's examples",
    "the '#' form is observed through resolution on a synthesised document (member name or index), DESIGN 1a",
    "offsets onto non-index tokens and offsets at the root are not generated (the draft/statement is silent)",
]

TOKENS = ["a", "0", "1", "2", "10", "12", "~", "a/b", "é", "a\nb"]
STEPS = ["0", "1", "2", "3", "4"]
OFFSETS = ["", "+1", "-1", "+2", "-2", "+10", "-10", "+12", "-12"]
SUFFIXES = ["", "#", "/a", "/0", "/~0", "/a~1b", "/é", "/a\nb/c"]
REFUSED = ["00", "01", "0+0", "0-0", "1+0#", "0+01", "0-00/a", "+1", "-1", "", "#", "/a", "0+", "0-#", "a", "0+a",
           # the draft's digits are ASCII digits
           "\u0661", "\u0661/a", "0+\u0661", "0-1\u0661#", "\u0660\u0661/a", "1\u0662", "0+\uff11"]


def selftest():
    return rptr.selftest()


def bounds(tier, seed):
    return {"base_depth": 3, "bases": sum(len(TOKENS) ** k for k in range(4)),
            "relative_texts": len(STEPS) * len(OFFSETS) * len(SUFFIXES) + len(REFUSED)}


def plan(tier, seed):
    shards = [("D", 0, None), ("D", 1, None), ("BIG",), ("ESC",)]
    for a in range(len(TOKENS)):
        shards.append(("D", 2, a))
        for b in range(len(TOKENS)):
            shards.append(("D3", a, b))
    return shards


# offsets "of any number of digits": results at and beyond the index limit of pointer *texts* (2**53 - 1)
BIG_BASES = [["a", "1"], ["9007199254740991"], ["a", "9007199254740990"], ["5"]]
BIG_OFFSETS = ["+9007199254740990", "+9007199254740991", "+9007199254740992", "+99999999999999999999", "-9007199254740991",
               "-9007199254740985", "+1", "+2", "-99999999999999999999"]


def big_cases():
    for base in BIG_BASES:
        for steps in ("0", "1"):
            for off in BIG_OFFSETS:
                for suf in ("", "/a", "/0"):
                    yield base, steps + off + suf


def rel_texts():
    for s in STEPS:
        for o in OFFSETS:
            for suf in SUFFIXES:
                yield s + o + suf
    for r in REFUSED:
        yield r


# tokens that hold a backslash (taken literally: everything is built with escape decoding off), suffixes whose last token
# ends in white space, and final tokens that look like numbers to int() but are not array indices
BS_TOKENS = ["C:\\new", "a\\u0041", "dir\\", "a", "%41"]
TRAIL_SUFFIXES = ["/foo\u3000", "/a ", "/\u3000", "/b\t", "/c\n", "/d\xa0", "/ "]
NONIDX = ["01", "+1", "1_0", "-0", " 1", "\u0661", "1 ", "00", "1.0", "0x1", "-1", "-5", "-12"]


def _esc(acc, record=True, only=None):
    from jsonpath import JSONPointer, RelativeJSONPointer
    from jsonpath.exceptions import RelativeJSONPointerError

    def case(kind, base, text, exp_tokens, allow_refusal=False):
        key = [kind, list(base), text]
        if only is not None and key != only:
            return
        bad = None
        try:
            rel = RelativeJSONPointer(text, unicode_escape=False)
            if str(rel) != text:
                bad = ("print", text, str(rel))
            for route, mk in (("parse", lambda: JSONPointer(rptr.encode(base), unicode_escape=False)),
                              ("from_parts", lambda: JSONPointer.from_parts(list(base), unicode_escape=False))):
                if bad:
                    break
                bp = mk()
                # (the decoder options of to() are for a base given as text: they never touch tokens already parsed)
                for how, fn in (("rel.to(base)", lambda: rel.to(bp)), ("base.to(rel)", lambda: bp.to(rel)),
                                ("base.to(text)", lambda: bp.to(text, unicode_escape=False)),
                                ("rel.to(base, uri_decode=True)", lambda: rel.to(bp, uri_decode=True)),
                                ("rel.to(base, unicode_escape=False, uri_decode=True)",
                                 lambda: rel.to(bp, unicode_escape=False, uri_decode=True))):
                    try:
                        res = fn()
                    except RelativeJSONPointerError:
                        if allow_refusal:
                            continue
                        bad = ("refused." + route + "." + how, rptr.encode(exp_tokens), "RelativeJSONPointerError")
                        break
                    want = rptr.encode(exp_tokens)
                    if str(res) != want or [str(t) for t in res.parts] != list(exp_tokens) or not (res == JSONPointer(want, unicode_escape=False)):
                        bad = ("result." + route + "." + how, want, str(res))
                        break
        except Exception as e:  # noqa: BLE001
            bad = ("exception", rptr.encode(exp_tokens), "%s: %s" % (type(e).__name__, e))
        if record:
            acc.case("ESC", (kind, tuple(base), text), outcome=tuple(exp_tokens), nontrivial=True)
            acc.count("esc." + kind)
        if bad:
            acc.violation("ESC", bad[0], {"esc": key}, expected=bad[1], observed=bad[2])

    for a in BS_TOKENS:
        for b in BS_TOKENS:
            base = [a, b]
            for steps in (0, 1, 2):
                for suf_toks, suf in (([], ""), (["x"], "/x"), (["y\\n", "z"], "/y\\n/z"), (["%2541"], "/%2541")):
                    case("backslash", base, "%d%s" % (steps, suf), base[:len(base) - steps] + suf_toks)
    for suf in TRAIL_SUFFIXES:
        for base in (["x"], ["x", "1"]):
            for steps in (0, 1):
                case("trailing-blank", base, "%d%s" % (steps, suf), base[:len(base) - steps] + rptr.parse(suf))
    for t in NONIDX:
        for off in ("+1", "-1", "+2"):
            for suf_toks, suf in (([], ""), (["k"], "/k")):
                # the statement is silent on an offset applied to a token that is not an array index (the draft says
                # evaluation fails): refusing is accepted, and so is leaving the token alone - a different token never is
                case("non-index-offset", ["a", t], "0" + off + suf, ["a", t] + suf_toks, allow_refusal=True)
                case("non-index-offset", ["a", t, "b"], "1" + off + suf, ["a", t] + suf_toks, allow_refusal=True)


def run_shard(shard, acc):
    if shard[0] == "ESC":
        _esc(acc)
        return
    if shard[0] == "BIG":
        for base, text in big_cases():
            _check(base, text, acc)
        return
    if shard[0] == "D":
        _, depth, a = shard
        if depth == 0:
            bases = [[]]
        elif depth == 1:
            bases = [[t] for t in TOKENS]
        else:
            bases = [[TOKENS[a], t] for t in TOKENS]
    else:
        _, a, b = shard
        bases = [[TOKENS[a], TOKENS[b], t] for t in TOKENS]
    for base in bases:
        for text in rel_texts():
            _check(base, text, acc)


def _expected(base, text):
    try:
        steps, off, suf = rptr.rel_parse(text)
    except rptr.SyntaxErr:
        return ("refused-syntax",)
    if off:
        trimmed = base[:len(base) - steps] if steps <= len(base) else None
        if trimmed is not None and (not trimmed or rptr.canonical_index(trimmed[-1]) is None):
            return ("skip",)
    try:
        return rptr.rel_apply(base, steps, off, suf)
    except rptr.RelForbidden:
        return ("refused-apply",)


def _check(base, text, acc, record=True):
    from jsonpath import JSONPointer, RelativeJSONPointer
    from jsonpath.exceptions import JSONPointerError, RelativeJSONPointerError

    exp = _expected(base, text)
    if exp[0] == "skip":
        if record:
            acc.count("skipped")
        return
    bp_text = rptr.encode(base)
    bad = None
    obs = None
    try:
        # the base pointer by one of three construction routes (chosen by the case, all covered over the space):
        # parsed text, from_parts (tokens held as strings), or the result of a previous relative application
        route = (len(base) + len(text)) % 3
        if route == 0:
            bp = JSONPointer(bp_text)
        elif route == 1:
            bp = JSONPointer.from_parts(list(base))
        else:
            bp = JSONPointer(bp_text).to("0")
        try:
            rel = RelativeJSONPointer(text)
        except RelativeJSONPointerError:
            rel = None
            obs = ("refused-syntax",)
        except JSONPointerError:
            # malformed text may also be rejected with a pointer error (C06 wording); only for texts the
            # grammar refuses - a well-formed relative pointer must never be rejected this way
            if exp[0] != "refused-syntax":
                raise
            rel = None
            obs = ("refused-syntax",)
        if rel is not None:
            if exp[0] != "refused-syntax" and str(rel) != text:
                bad = ("print", text, str(rel))
            try:
                res = rel.to(bp)
                obs = ("result", str(res))
            except RelativeJSONPointerError:
                res = None
                obs = ("refused-apply",)
            # JSONPointer.to(text) must agree with RelativeJSONPointer(text).to(base)
            try:
                res2 = bp.to(text)
                obs2 = ("result", str(res2))
            except RelativeJSONPointerError:
                obs2 = ("refused-apply",)
            if bad is None and obs2 != obs:
                bad = ("to-disagrees", obs, obs2)
        if bad is None:
            if exp[0] in ("refused-syntax", "refused-apply"):
                if obs[0] not in ("refused-syntax", "refused-apply"):
                    bad = ("not-refused", exp[0], obs)
            elif obs[0] != "result":
                bad = ("refused", exp, obs)
            elif exp[0] == "ptr":
                want = rptr.encode(exp[1])
                # parsing a pointer text with an index beyond the limit is a documented construction-time error, so
                # such a result is compared by its text only
                big = any((rptr.canonical_index(t) or 0) > 2 ** 53 - 1 for t in exp[1])
                if str(res) != want or not (big or res == JSONPointer(want)):
                    bad = ("result", want, str(res))
            else:  # key marker: observe through resolution
                doc, _leaf = _synth(exp[1])
                parent = rptr.resolve(doc, exp[1][:-1])
                want = rptr.canonical_index(exp[1][-1]) if isinstance(parent, list) else exp[1][-1]
                got = res.resolve(doc)
                if got != want or type(got) is not type(want):
                    bad = ("key-marker", want, got)
    except Exception as e:  # noqa: BLE001
        bad = ("exception", exp[0], "%s: %s" % (type(e).__name__, e))
    if record:
        acc.case("REL", (tuple(base), text), outcome=(exp[0], tuple(exp[1]) if len(exp) > 1 else None),
                 nontrivial=exp[0] in ("ptr", "key"))
        acc.count("exp." + exp[0])
        if acc.evals % 4000 == 1:
            acc.sample("REL", {"base": bp_text, "relative": text, "expected": list(exp)})
    if bad:
        acc.violation("REL", bad[0], {"base": base, "relative": text}, expected=bad[1], observed=bad[2])


REQUIRE = {"esc.backslash": 100, "esc.trailing-blank": 10, "esc.non-index-offset": 10, "exp.ptr": 1000, "exp.key": 100, "exp.refused-syntax": 100, "exp.refused-apply": 100, "skipped": 10}


def check_case(sub, case, acc):
    if sub == "ESC":
        _esc(acc, record=False, only=case["esc"])
        return
    _check(case["base"], case["relative"], acc, record=False)


def shrink(sub, case):
    if sub == "ESC":
        return
    base, rel = case["base"], case["relative"]
    for i in range(len(base)):
        yield {"base": base[:i] + base[i + 1:], "relative": rel}
    for suf in ("", "#"):
        for s in SUFFIXES:
            if s and s != "#" and rel.endswith(s):
                yield {"base": base, "relative": rel[:-len(s)] + suf}


def signature(sub, case, v):
    import re

    if sub == "ESC":
        return "C16.ESC.%s.%s" % (case["esc"][0], v["kind"].split(".")[0])

    rel = case["relative"]
    shape = re.sub(r"[0-9]{2,}", "NN", rel)
    shape = re.sub(r"(?<![0-9N])[0-9](?![0-9])", "N", shape)
    shape = re.sub(r"/.*", "/ptr", shape)
    return "C16.%s.rel(%s).base-depth%d" % (v["kind"], shape, min(len(case["base"]), 2))
