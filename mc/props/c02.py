"""C02 - RFC 9535 filter expressions select exactly the nodes the RFC makes true.

E-PROD: (T) the complete comparison table over a 27-value universe x 6 operators x
operand forms; (E) expression trees (atoms, !, (), &&, || to a connective depth);
(S) spellings of filter expressions with blanks at every ABNF S position.
Oracle: mc.ref.rfilter / rpath.
"""
import itertools

from ..gen import spell
from ..jsonutil import ckey, jeq
from ..ref import rfilter, rpath, selftest_path
from ..ref.rpath import C, D, F, I, N, Q, W
from .common import tup, type_tag, shrink_doc, chunks

ID = "C02"
RULE = (
    "T: all ordered pairs of a 33-value universe (absent, every JSON type, int/float/bool look-alikes, nested containers) "
    "x 6 operators x operand forms (literal, @.x, $.x, value(@.x)); E: every atom (existence tests, comparisons over a "
    "21-comparable alphabet x 6 operators, match/search over a pattern pool) alone, under ! and parentheses, and every "
    "&&/|| tree over 12 representative atoms to connective depth 2 (3); S: blanks at every S position; N: 26 number-literal spellings x 6 operators x both sides; "
    "RX: match/search with subject and pattern taken from the candidate, over every ordered triple of 10 (subject, pattern) records "
    "incl. patterns re refuses and non-strings (what one evaluation leaves in the shared function object meets every following one). "
    "state = distinct (query text, document); non-trivial = reference selects at least one child; "
    "oracle = locations and values of the selected children"
)
ASSUMPTIONS = [
    "reference model mc/ref/rfilter.py written from RFC 9535 2.3.5/2.4, self-tested on the RFC tables each run",
    "regular expressions restricted to a fixed pool on which I-Regexp and Python re agree; the matching relation itself is re's",
    "typed JSON equality; NaN/Infinity/ints beyond 2^53 not generated",
]

ABSENT = ("<absent>",)
U = [ABSENT, None, True, False, 0, 1, 1.0, 2, 1.5, "", "a", "b", "1", "true", [], [1], [True], [1.0], [[1]], [[True]],
     {}, {"a": 1}, {"a": True}, {"a": 1.0}, {"b": 1}, {"a": 1, "b": 2}, {"b": 2, "a": 1},
     # absent member vs member holding null, also under nesting
     {"a": None}, {"b": None}, [None], {"a": {"a": None}}, {"a": {"b": None}}, {"a": None, "b": 1}]
OPS = ["==", "!=", "<", "<=", ">", ">="]

KIDS = [None, True, False, 0, 1, 2, 1.5, "", "a", "ab", "b", [], [1], [0, 2], ["a"], {}, {"a": 1}, {"a": "ab", "b": 2},
        {"a": None}, {"a": [1, 2]}, {"b": {"a": 1}}, {"a": False, "b": "a"}, [[1]], {"a": 0}, "a\n", "\n", "ab\n", {"a": "ab\n"}]


def filter_docs():
    arr = list(KIDS)
    obj = {"k%d" % i: v for i, v in enumerate(KIDS)}
    return [{"k": 1, "s": "a", "arr": arr}, {"k": 1, "s": "a", "arr": obj}]


def selftest():
    return selftest_path.run()


def at(*segs):
    return Q(*segs, root="@")


def L(v):
    return ("lit", v)


def qa(*segs):
    return ("q", at(*segs))


def qr(*segs):
    return ("q", Q(*segs))


def call(name, *args):
    return ("call", name, list(args))


PATTERNS = ["a", "a.*", "[ab]+", "a?b", "(a|b)b", "x", "ab|a", ""]


def comparables():
    lits = [L(v) for v in (None, True, False, 0, 1, 1.5, "a", "ab", "")]
    qs = [qa(), qa(C(N("a"))), qa(C(N("b"))), qa(C(I(0))), qr(C(N("k"))), qr(C(N("nope")))]
    fs = [call("length", qa()), call("length", qa(C(N("a")))), call("count", qa(C(W))), call("count", qa(D(W))),
          call("value", qa(C(W))), call("value", qa(D(N("a")))), call("count", qa()), call("value", qa()),
          call("length", call("value", qa(C(W)))), call("count", qa(C(F(("cmp", ">", qa(), L(1)))))),
          call("value", qa(C(F(("cmp", "==", qa(), L("a"))))))]
    return lits + qs + fs


def existence_atoms():
    inner1 = F(("cmp", "==", qa(), qr(C(N("k")))))
    inner2 = F(("cmp", ">", qa(), L(1)))
    return [
        ("test", at()), ("test", at(C(N("a")))), ("test", at(C(I(0)))), ("test", at(C(W))), ("test", at(D(N("a")))),
        ("test", Q(C(N("k")))), ("test", Q(C(N("nope")))), ("test", at(C(inner1))), ("test", at(C(N("a")), C(inner2))),
        ("test", at(C(F(("test", at(C(inner1))))))), ("test", at(C(I(-1)))), ("test", at(C(("slice", None, None, None)))),
        ("test", Q(C(N("arr")), C(F(("cmp", "==", qa(), qa()))))),
        ("test", at(C(F(("cmp", "==", qr(C(N("k"))), L(1)))))), ("test", at(C(N("a")), C(F(("cmp", "==", qr(C(N("k"))), L(2)))))),
        ("test", at(C(F(("cmp", "==", L(1), L(1)))))), ("cmp", "==", call("count", qa(C(F(("cmp", "==", qr(C(N("k"))), L(1)))))), L(2)),
    ]


def function_atoms():
    out = []
    for name in ("match", "search"):
        for subj in (qa(), qa(C(N("a"))), qr(C(N("s"))), L("ab")):
            for p in PATTERNS:
                out.append(call(name, subj, L(p)))
        out.append(call(name, qa(), qa(C(N("b")))))
        out.append(call(name, qa(C(N("b"))), qa(C(N("a")))))
        out.append(call(name, qa(), L("(")))
        out.append(call(name, L(1), L("1")))
    return out


def all_atoms():
    out = list(existence_atoms())
    cs = comparables()
    for op in OPS:
        for a in cs:
            for b in cs:
                out.append(("cmp", op, a, b))
    out += function_atoms()
    return out


def rep_atoms():
    """12 representative atoms: true/false existence, each comparison outcome class, each function."""
    return [
        ("test", at(C(N("a")))), ("test", at()), ("test", Q(C(N("nope")))), ("test", Q(C(N("k")))),
        ("cmp", "==", qa(C(N("a"))), L(1)), ("cmp", "<", qa(), L(2)), ("cmp", ">=", qa(), L("ab")),
        ("cmp", "!=", qa(C(N("b"))), qr(C(N("nope")))), ("cmp", "==", call("length", qa()), L(2)),
        ("cmp", ">", call("count", qa(C(W))), L(1)), call("match", qa(), L("a.*")), call("search", qa(C(N("a"))), L("b")),
    ]


def level(atoms, depth, with_not=True):
    e = list(atoms)
    if with_not:
        e = e + [("not", a) for a in atoms]
    cur = e
    for _ in range(depth - 1):
        nxt = []
        for op in ("and", "or"):
            for x in cur:
                for y in cur:
                    nxt.append((op, x, y))
        cur = e + nxt
    return cur


def trees(tier):
    reps = rep_atoms()
    if tier == "quick":
        base = level(reps, 2)                       # 24 + 2*24^2
        bins = [t for t in base if t[0] in ("and", "or")]
        out = base + [("not", t) for t in bins] + [("paren", t) for t in bins[:200]]
        # depth 3 over 4 atoms, no negation inside
        small = [reps[0], reps[2], reps[5], reps[10]]
        l2 = level(small, 2, with_not=False)
        for op in ("and", "or"):
            for x in l2:
                for y in l2:
                    out.append((op, x, y))
        return out
    base = level(reps, 2)
    bins = [t for t in base if t[0] in ("and", "or")]
    out = base + [("not", t) for t in bins] + [("paren", t) for t in bins]
    small = reps[:6] + [reps[10]]
    l2 = level(small, 2)
    for op in ("and", "or"):
        for x in l2:
            for y in l2:
                out.append((op, x, y))
    return out


NUMBER_SPELLINGS = [("1E-2", 0.01), ("1e-2", 0.01), ("1E2", 100), ("1e2", 100), ("1e+2", 100), ("1E+2", 100), ("1.5E1", 15), ("1.5e1", 15),
                    ("-5E-1", -0.5), ("-5e-1", -0.5), ("1.0e-2", 0.01), ("1.0E-2", 0.01), ("100", 100), ("100.0", 100), ("0.5", 0.5),
                    ("-0", 0), ("-0.0", 0), ("0e0", 0), ("2E0", 2), ("1e-0", 1), ("12e-1", 1.2), ("9007199254740993", 9007199254740993),
                    ("9007199254740992", 9007199254740992), ("-9007199254740993", -9007199254740993), ("1.25e2", 125), ("5E-1", 0.5)]
NUMBER_KIDS = [0, 0.01, 0.5, -0.5, 1, 1.2, 2, 15, 100, 125, 9007199254740992, 9007199254740993, -9007199254740993, 0.001, 99, "100", True]


def bounds(tier, seed):
    return {"table": "%d^2 pairs x 6 ops x forms" % len(U), "atoms": len(all_atoms()), "trees": len(trees(tier)),
            "spelling_blanks": 1 if tier == "quick" else 2}


def plan(tier, seed):
    shards = []
    for i in range(len(U)):
        shards.append(("T", i))
    na = len(all_atoms())
    for lo in range(0, na, 120):
        shards.append(("A", lo, min(na, lo + 120)))
    nt = len(trees(tier))
    for lo in range(0, nt, 400):
        shards.append(("E", tier, lo, min(nt, lo + 400)))
    shards.append(("N",))
    for i in range(len(RX_RECS)):
        shards.append(("RX", i))
    ns = len(spelling_exprs())
    for lo in range(0, ns, 2):
        shards.append(("S", 1 if tier == "quick" else 2, lo, min(ns, lo + 2)))
    return shards


# (subject, pattern) records; the regular-expression functions are evaluated on every ordered triple of them, so that
# whatever one evaluation leaves behind in the (environment-wide) function object meets every following one
RX_RECS = [("x", "x"), ("x", "("), ("xy", "x"), ("x", "["), ("", "x*"), ("x", 1), (1, "x"), ("x\n", "x"), ("x", "x|y"), ("y", "x|y")]


def rx_queries():
    a, b = qa(C(N("a"))), qa(C(N("b")))
    return [Q(C(N("arr")), C(F(call("match", a, b)))), Q(C(N("arr")), C(F(call("search", a, b)))),
            Q(C(N("arr")), C(F(("not", call("match", a, b))))),
            Q(C(N("arr")), C(F(("or", call("match", a, b), call("search", b, a)))))]


def spelling_exprs():
    reps = rep_atoms()
    out = list(reps) + [("not", reps[0]), ("not", reps[4]), ("paren", reps[5]), ("and", reps[0], reps[5]),
                        ("or", reps[4], ("and", reps[1], reps[10])), ("and", ("or", reps[0], reps[2]), reps[5]),
                        ("not", ("or", reps[0], reps[5])), ("cmp", "==", qa(C(N("a")), C(I(0))), L("x y")),
                        ("test", at(C(F(("cmp", "==", qa(), qr(C(N("k")))))))),
                        ("cmp", "<=", call("length", qa(C(N("a")))), call("count", qa(D(W))))]
    return out


def _forms(val, side):
    forms = []
    if val is not ABSENT and not isinstance(val, (list, dict)):
        forms.append(("lit", L(val)))
    forms.append(("rel", qa(C(N(side)))))
    forms.append(("abs", qr(C(N(side)))))
    forms.append(("val", call("value", qa(C(N(side))))))
    return forms


def run_shard(shard, acc):
    kind = shard[0]
    if kind == "T":
        u = U[shard[1]]
        for v in U:
            rec = {}
            if u is not ABSENT:
                rec["l"] = u
            if v is not ABSENT:
                rec["r"] = v
            doc = dict(rec)
            doc["c"] = [dict(rec)]
            for op in OPS:
                for fa, ea in _forms(u, "l"):
                    for fb, eb in _forms(v, "r"):
                        if fa == "lit" and fb == "lit":
                            # literal-vs-literal is allowed by the grammar
                            pass
                        q = Q(C(N("c")), C(F(("cmp", op, ea, eb))))
                        _eval("T", q, spell.text(q), [doc], acc, tag="op%s" % op)
    elif kind == "A":
        docs = filter_docs()
        for e in all_atoms()[shard[1]:shard[2]]:
            for wrap in (e, ("not", e), ("paren", e)):
                q = Q(C(N("arr")), C(F(wrap)))
                _eval("A", q, spell.text(q), docs, acc, tag="atom." + e[0])
    elif kind == "E":
        docs = filter_docs()
        for e in trees(shard[1])[shard[2]:shard[3]]:
            q = Q(C(N("arr")), C(F(e)))
            _eval("E", q, spell.text(q), docs, acc, tag="tree." + e[0])
    elif kind == "N":
        # every spelling of a number literal means its mathematical value (RFC 9535 2.3.5.1 number syntax)
        import jsonpath

        doc = {"arr": list(NUMBER_KIDS)}
        for text, value in NUMBER_SPELLINGS:
            for op in OPS:
                for tmpl in ("$.arr[?@ %s %s]", "$.arr[?%s %s @]"):
                    qtext = tmpl % ((op, text) if tmpl.endswith("%s]") else (text, op))
                    exp = []
                    for kid in NUMBER_KIDS:
                        a, b = (kid, value) if tmpl.endswith("%s]") else (value, kid)
                        if rfilter.compare(op, a, b):
                            exp.append(kid)
                    bad = None
                    try:
                        got = jsonpath.findall(qtext, doc)
                        if len(got) != len(exp) or any(not jeq(g, x) for g, x in zip(got, exp)):
                            bad = ("number-literal", got)
                    except Exception as e:  # noqa: BLE001
                        bad = ("exception", "%s: %s" % (type(e).__name__, e))
                    acc.case("N", qtext, outcome=tuple(ckey(x) for x in exp), nontrivial=bool(exp))
                    acc.count("number.%s" % ("some" if exp else "none"))
                    if bad:
                        acc.violation("N", bad[0], {"text": qtext, "literal": text, "doc": doc}, expected=exp, observed=bad[1])
    elif kind == "RX":
        r1 = RX_RECS[shard[1]]
        docs = [{"arr": [{"a": x[0], "b": x[1]} for x in (r1, r2, r3)]} for r2 in RX_RECS for r3 in RX_RECS]
        for q in rx_queries():
            _eval("RX", q, spell.text(q), docs, acc, tag="rx")
    elif kind == "S":
        docs = filter_docs()
        o = spell.Opts(full_strings=False)
        for e in spelling_exprs()[shard[2]:shard[3]]:
            q = Q(C(N("arr")), C(F(e)))
            for text in spell.spellings(spell.query(q, o), shard[1], True):
                _eval("S", q, text, docs, acc, tag="spell", every=100)


def _eval(sub, q, text, docs, acc, tag, every=300):
    import jsonpath

    try:
        p = jsonpath.compile(text)
    except Exception as e:  # noqa: BLE001
        acc.case(sub, (text, "compile"), outcome=("compile-error", type(e).__name__), nontrivial=False)
        acc.violation(sub, "compile-error", {"q": q, "text": text, "doc": None},
                      expected="compiles (well-typed RFC 9535 filter)", observed="%s: %s" % (type(e).__name__, e))
        return
    for doc in docs:
        exp = rpath.nodelist(q, doc)
        bad = None
        try:
            got = [(tuple(m.parts), m.obj) for m in p.finditer(doc)]
            if len(got) != len(exp) or any(g[0] != x[0] or not jeq(g[1], x[1]) for g, x in zip(got, exp)):
                bad = ("selection", [list(g[0]) for g in got])
        except Exception as e:  # noqa: BLE001
            bad = ("exception", "%s: %s" % (type(e).__name__, e))
        acc.case(sub, (text, ckey(doc)), outcome=tuple(x[0] for x in exp), nontrivial=bool(exp))
        acc.count("%s.%s" % (tag, "some" if exp else "none"))
        if acc.evals % every == 1:
            acc.sample(sub, {"text": text, "doc": doc, "expected_locations": [list(x[0]) for x in exp]})
        if bad:
            acc.violation(sub, bad[0], {"q": q, "text": text, "doc": doc},
                          expected=[list(x[0]) for x in exp], observed=bad[1])


def REQUIRE(tier):
    req = {}
    for op in OPS:
        req["op%s.some" % op] = 1
        req["op%s.none" % op] = 1
    req["number.some"] = 100
    req["rx.some"] = 100
    req["rx.none"] = 10
    for k in ("atom.test", "atom.cmp", "atom.call", "tree.and", "tree.or", "tree.not", "spell"):
        req[k + ".some"] = 1
        req[k + ".none"] = 1
    return req


def check_case(sub, case, acc):
    if sub == "N":
        import jsonpath

        lit = dict(NUMBER_SPELLINGS)[case["literal"]]
        qtext = case["text"]
        left = qtext.startswith("$.arr[?@ ")
        op = [o for o in sorted(OPS, key=len, reverse=True) if (" %s " % o) in qtext][0]
        exp = [kid for kid in NUMBER_KIDS if rfilter.compare(op, *((kid, lit) if left else (lit, kid)))]
        try:
            got = jsonpath.findall(qtext, case["doc"])
            if len(got) != len(exp) or any(not jeq(g, x) for g, x in zip(got, exp)):
                acc.violation("N", "number-literal", case, expected=exp, observed=got)
        except Exception as e:  # noqa: BLE001
            acc.violation("N", "exception", case, expected=exp, observed="%s: %s" % (type(e).__name__, e))
        return
    q = tup(case["q"])
    text = case.get("text") or spell.text(q)
    _eval(sub, q, text, [case.get("doc")], acc, tag="replay")


def _sub_exprs(e):
    """Smaller expressions that could replace e (sub-trees of the right type)."""
    k = e[0]
    if k in ("or", "and"):
        yield e[1]
        yield e[2]
        for x in _sub_exprs(e[1]):
            yield (k, x, e[2])
        for y in _sub_exprs(e[2]):
            yield (k, e[1], y)
    elif k in ("not", "paren"):
        yield e[1]
        for x in _sub_exprs(e[1]):
            yield (k, x)
    elif k == "cmp":
        for pos in (2, 3):
            c = e[pos]
            for c2 in _sub_comparables(c):
                e2 = list(e)
                e2[pos] = c2
                yield tuple(e2)


def _sub_comparables(c):
    if c[0] == "call" and c[1] in ("length", "value"):
        yield c[2][0]
    if c[0] == "q":
        segs = c[1][2]
        for i in range(len(segs)):
            yield ("q", ("query", c[1][1], segs[:i] + segs[i + 1:]))
        if c[1][1] == "$":
            pass
    if c[0] == "lit" and c[1] not in (1, None):
        yield ("lit", 1)


def shrink(sub, case):
    if sub == "N":
        return
    q = tup(case["q"])
    doc = case["doc"]
    segs = q[2]
    f = segs[-1][1][0]
    if f[0] == "filter":
        for e2 in _sub_exprs(f[1]):
            q2 = ("query", "$", segs[:-1] + [("child", [("filter", e2)])])
            yield {"q": q2, "text": spell.text(q2), "doc": doc}
    if case.get("text") and case["text"] != spell.text(q):
        yield {"q": q, "text": spell.text(q), "doc": doc}
    # shrink the filtered container: keep the document shape {"k","s","arr"/"c"}
    if isinstance(doc, dict):
        for key in ("arr", "c"):
            if key in doc and isinstance(doc[key], (list, dict)):
                cont = doc[key]
                if isinstance(cont, list):
                    for i in range(len(cont)):
                        d2 = dict(doc)
                        d2[key] = cont[:i] + cont[i + 1:]
                        yield {"q": q, "text": case.get("text") or spell.text(q), "doc": d2}
                else:
                    for k in cont:
                        d2 = dict(doc)
                        d2[key] = {k2: v for k2, v in cont.items() if k2 != k}
                        yield {"q": q, "text": case.get("text") or spell.text(q), "doc": d2}
                if isinstance(cont, dict) and len(cont) <= 2:
                    d2 = dict(doc)
                    d2[key] = list(cont.values())
                    yield {"q": q, "text": case.get("text") or spell.text(q), "doc": d2}


def _expr_shape(e):
    k = e[0]
    if k in ("or", "and"):
        return "%s(%s,%s)" % (k, _expr_shape(e[1]), _expr_shape(e[2]))
    if k in ("not", "paren"):
        return "%s(%s)" % (k, _expr_shape(e[1]))
    if k == "cmp":
        return "cmp%s(%s,%s)" % (e[1], _cshape(e[2]), _cshape(e[3]))
    if k == "test":
        return "test(%s)" % _qshape(e[1])
    if k == "call":
        return "%s(%s)" % (e[1], ",".join(_cshape(a) for a in e[2]))
    return k


def _cshape(c):
    if c[0] == "lit":
        return "lit:" + type_tag(c[1])
    if c[0] == "q":
        return _qshape(c[1])
    if c[0] == "call":
        return "%s(%s)" % (c[1], ",".join(_cshape(a) for a in c[2]))
    return c[0]


def _qshape(q):
    return q[1] + "".join(("." if s[0] == "child" else "..") + "+".join(x[0] for x in s[1]) for s in q[2])


def _kid_types(doc):
    out = set()
    if isinstance(doc, dict):
        for key in ("arr", "c"):
            cont = doc.get(key)
            if isinstance(cont, list):
                for x in cont:
                    out.add(_deep_tag(x))
            elif isinstance(cont, dict):
                for x in cont.values():
                    out.add(_deep_tag(x))
    return ",".join(sorted(out))


def _deep_tag(x):
    if isinstance(x, list):
        return "array[" + ",".join(sorted({type_tag(y) for y in x})) + "]"
    if isinstance(x, dict):
        return "object{" + ",".join(sorted("%s:%s" % (k, type_tag(y)) for k, y in x.items())) + "}"
    if isinstance(x, bool) or x is None:
        return repr(x)
    if isinstance(x, (int, float)):
        return "number" if x else "zero"
    if isinstance(x, str):
        return "string" if x else "emptystr"
    return type_tag(x)


def signature(sub, case, v):
    if sub == "N":
        import re
        return "C02.N.%s.%s" % (v["kind"], re.sub(r"[0-9]+", "9", case["literal"]))
    q = tup(case["q"])
    f = q[2][-1][1][0]
    shape = _expr_shape(f[1]) if f[0] == "filter" else "?"
    sp = "" if case.get("text") in (None, spell.text(q)) else ".spelling"
    if v["kind"] == "compile-error":
        return "C02.compile-error%s.%s" % (sp, shape)
    if v["kind"] == "exception":
        import re
        return "C02.exception%s.%s.%s" % (sp, shape, re.sub(r"[^A-Za-z: ]+", "", str(v.get("observed")))[:40])
    return "C02.%s%s.%s.kids(%s)" % (v["kind"], sp, shape, _kid_types(case.get("doc")))
