"""Independent implementation of the RFC 9535 section 2.4.3 well-typedness rules over the
expression ASTs of mc.ref.rfilter (plus ("littest", v): a literal used as a test).
"""
from .rfilter import FUNCS
from .rpath import is_singular


def query_ok(q):
    """All filters nested in the query are well typed."""
    for seg in q[2]:
        for sel in seg[1]:
            if sel[0] == "filter" and not logical_ok(sel[1]):
                return False
    return True


def logical_ok(e):
    k = e[0]
    if k in ("or", "and"):
        return logical_ok(e[1]) and logical_ok(e[2])
    if k in ("not", "paren"):
        return logical_ok(e[1])
    if k == "cmp":
        return comparable_ok(e[2]) and comparable_ok(e[3])
    if k == "test":
        return query_ok(e[1])
    if k == "call":
        return call_ok(e) and FUNCS[e[1]][1] in ("logical", "nodes")
    if k == "littest":
        return False  # a literal that is not compared
    raise ValueError(e)


def comparable_ok(c):
    k = c[0]
    if k == "lit":
        return True
    if k == "q":
        return is_singular(c[1]) and query_ok(c[1])
    if k == "call":
        return call_ok(c) and FUNCS[c[1]][1] == "value"
    return False


def call_ok(c):
    _, name, args = c
    if name not in FUNCS:
        return False
    params, _ret = FUNCS[name]
    if len(params) != len(args):
        return False
    for p, a in zip(params, args):
        k = a[0]
        if p == "value":
            if k == "lit":
                continue
            if k == "q" and is_singular(a[1]) and query_ok(a[1]):
                continue
            if k == "call" and call_ok(a) and FUNCS[a[1]][1] == "value":
                continue
            return False
        if p == "nodes":
            if k == "q" and query_ok(a[1]):
                continue
            if k == "call" and call_ok(a) and FUNCS[a[1]][1] == "nodes":
                continue
            return False
        if p == "logical":
            if k == "q" and query_ok(a[1]):
                continue
            if k == "call" and call_ok(a) and FUNCS[a[1]][1] in ("logical", "nodes"):
                continue
            if k in ("or", "and", "not", "paren", "cmp", "test") and logical_ok(a):
                continue
            return False
    return True


def selftest():
    from .rpath import C, D, I, N, Q, W

    def at(*s):
        return Q(*s, root="@")

    sq = ("q", at(C(N("a"))))
    nsq = ("q", at(C(W)))
    n = 0
    ok = [
        ("cmp", "==", ("call", "length", [sq]), ("lit", 1)),          # $[?length(@.a) == 1]
        ("cmp", "==", ("call", "count", [nsq]), ("lit", 1)),          # count(@.*) == 1
        ("call", "match", [sq, ("lit", "a")]),                        # match(@.a, 'a')
        ("cmp", "==", ("call", "value", [("q", at(D(N("a"))))]), ("lit", 1)),
        ("test", at(C(W))), ("not", ("test", at(C(N("a"))))),
        ("cmp", "==", ("call", "length", [("call", "value", [nsq])]), ("lit", 1)),
        ("cmp", "==", ("call", "count", [sq]), ("lit", 1)),
    ]
    bad = [
        ("call", "length", [sq]),                                      # $[?length(@.a)]  value used as test
        ("cmp", "==", ("call", "length", [nsq]), ("lit", 1)),          # length(@.*) non-singular to ValueType
        ("cmp", "==", ("call", "count", [("lit", 1)]), ("lit", 1)),    # count(1)
        ("cmp", "==", ("call", "match", [sq, ("lit", "a")]), ("lit", True)),  # match(...) == true
        ("cmp", "==", nsq, ("lit", 1)),                                # @.* == 1
        ("cmp", "==", ("call", "value", [("lit", 1)]), ("lit", 1)),
        ("call", "match", [sq]), ("call", "match", [sq, ("lit", "a"), ("lit", "b")]),
        ("call", "nosuch", [sq]), ("littest", True), ("not", ("littest", 1)),
        ("and", ("test", at()), ("call", "length", [sq])),
        ("cmp", "==", ("call", "length", [("cmp", "==", sq, ("lit", 1))]), ("lit", 1)),
        ("cmp", "==", ("call", "length", [("call", "match", [sq, ("lit", "a")])]), ("lit", 1)),
    ]
    for e in ok:
        assert logical_ok(e), e
        n += 1
    for e in bad:
        assert not logical_ok(e), e
        n += 1
    return n
