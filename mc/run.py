"""Runner: tiers, sharding over worker processes, evidence, replays, known findings.

Usage (through /verif/check):  check <ID> quick|thorough   |   check <ID> --replay <file>
Exit codes: 0 property held on everything explored (KNOWN-FINDING lines allowed);
1 VIOLATION lines printed; 2 harness error (never a verdict).
"""
import collections
import importlib
import json
import multiprocessing
import os
import re
import signal
import sys
import time
import traceback

VERIF = os.path.dirname(os.path.dirname(os.path.abspath(__file__)))
REPO = os.environ.get("VERIF_REPO", "/repo")
GUARD = "PYTHON_JSONPATH_VERIF"


class HarnessError(Exception):
    """A problem in the machinery (self-test failure, replay divergence...)."""


class BudgetExceeded(BaseException):
    """Raised inside an execution that used more CPU time than its budget."""


def bind_repo():
    """Import jsonpath from the working tree under test, never from anywhere else."""
    os.environ[GUARD] = "1"
    sys.dont_write_bytecode = True
    if sys.path[0] != REPO:
        sys.path.insert(0, REPO)
    import jsonpath

    f = os.path.realpath(jsonpath.__file__)
    if not f.startswith(os.path.realpath(REPO) + os.sep):
        raise HarnessError("jsonpath imported from %s, expected under %s" % (f, REPO))
    return jsonpath


# ----------------------------------------------------------------------------
# CPU budget per execution


def _on_vtalrm(signum, frame):
    raise BudgetExceeded()


class budget:
    """with budget(seconds): ... raises BudgetExceeded when CPU time runs out. Budgets nest: an inner budget never
    outlives the outer one, and leaving it re-arms what is left of the outer one."""

    def __init__(self, seconds):
        self.seconds = seconds

    def __enter__(self):
        signal.signal(signal.SIGVTALRM, _on_vtalrm)
        self.outer = signal.getitimer(signal.ITIMER_VIRTUAL)[0]
        self.armed = min(self.seconds, self.outer) if self.outer else self.seconds
        signal.setitimer(signal.ITIMER_VIRTUAL, self.armed)

    def __exit__(self, *a):
        left = signal.getitimer(signal.ITIMER_VIRTUAL)[0]
        if self.outer:
            signal.setitimer(signal.ITIMER_VIRTUAL, max(self.outer - (self.armed - left), 0.001))
        else:
            signal.setitimer(signal.ITIMER_VIRTUAL, 0)
        return False


SHARD_WALL_S = 3600  # wall-clock watchdog per shard: an execution blocked outside the CPU (waiting for input) never
#                      uses up a CPU budget


def _on_alrm(signum, frame):
    raise BudgetExceeded("wall clock")


class wall_budget:
    def __init__(self, seconds):
        self.seconds = seconds

    def __enter__(self):
        signal.signal(signal.SIGALRM, _on_alrm)
        signal.setitimer(signal.ITIMER_REAL, self.seconds)

    def __exit__(self, *a):
        signal.setitimer(signal.ITIMER_REAL, 0)
        return False


def detach_stdin():
    """Nothing the checks run may wait for the terminal: file descriptor 0 becomes /dev/null (an implementation that
    reads the process's real standard input sees end of file instead of blocking)."""
    fd = os.open(os.devnull, os.O_RDONLY)
    os.dup2(fd, 0)
    os.close(fd)


# ----------------------------------------------------------------------------
# accumulator (one per shard, merged by the parent)

MAX_VIOL_PER_SHARD = 2000
MAX_VIOL_PER_CLASS = 20
_RE_COARSE = re.compile(r"[0-9]+|'[^']*'|\"[^\"]*\"|\[.*\]|\{.*\}")


class Acc:
    def __init__(self):
        self.evals = 0
        self.trans = 0
        self.traces = 0
        self.states = set()
        self.nontrivial = set()
        self.outcomes = set()
        self.counters = collections.Counter()
        self.samples = {}
        self.viol = []
        self.raw_viol = 0
        self.info = {}
        self._per_class = {}

    def case(self, sub, key, outcome=None, nontrivial=True, trans=1):
        """Record one explored case (a state of the explored space)."""
        self.evals += 1
        self.trans += trans
        hk = hash((sub, key))
        self.states.add(hk)
        if nontrivial:
            self.nontrivial.add(hk)
        if outcome is not None:
            self.outcomes.add(hash((sub, outcome)))

    def count(self, name, k=1):
        self.counters[name] += k

    def sample(self, sub, case):
        s = self.samples.setdefault(sub, [])
        if len(s) < 2:
            s.append(case)
        elif len(s) == 2:
            s.append(case)
        else:
            s[2] = case

    def violation(self, sub, kind, case, expected=None, observed=None, note=None):
        """Record a violating case.  To keep one flooding root cause from hiding the others, the cap is
        applied per coarse class (sub-check, kind, shape of the observation), not globally."""
        self.raw_viol += 1
        coarse = (sub, kind, _RE_COARSE.sub("#", str(observed))[:60])
        n = self._per_class.get(coarse, 0)
        self._per_class[coarse] = n + 1
        if n < MAX_VIOL_PER_CLASS and len(self.viol) < MAX_VIOL_PER_SHARD:
            self.viol.append(
                dict(sub=sub, kind=kind, case=case, expected=expected, observed=observed, note=note)
            )

    def export(self):
        return dict(
            evals=self.evals,
            trans=self.trans,
            traces=self.traces,
            nstates=len(self.states),
            nnontrivial=len(self.nontrivial),
            outcomes=self.outcomes,
            counters=self.counters,
            samples=self.samples,
            viol=self.viol,
            raw_viol=self.raw_viol,
            info=self.info,
        )


# ----------------------------------------------------------------------------
# worker

_MOD = None


def _cov_start():
    """Audit aid (tools/cov.sh), never part of a verdict: VERIF_COV=<data file> records which lines and branches of the
    implementation the exploration executed, to find case splits no generated input reaches."""
    if not os.environ.get("VERIF_COV"):
        return None
    import coverage

    cov = coverage.Coverage(data_file=os.environ["VERIF_COV"], data_suffix=True, branch=True, config_file=False,
                            include=[os.path.join(REPO, "jsonpath", "*")])
    cov.start()
    return cov


def _raised_in_impl(e):
    """'jsonpath/x.py:123' when the innermost frame of the traceback is implementation code, else None."""
    tb = e.__traceback__
    last = None
    while tb is not None:
        last = tb
        tb = tb.tb_next
    if last is None:
        return None
    fn = last.tb_frame.f_code.co_filename
    root = os.path.join(os.path.realpath(REPO), "jsonpath") + os.sep
    if os.path.realpath(fn).startswith(root):
        return "jsonpath/%s:%d" % (os.path.realpath(fn)[len(root):], last.tb_lineno)
    return None


def _worker(shard):
    t0 = time.time()
    acc = Acc()
    cov = _cov_start()
    try:
        try:
            with wall_budget(SHARD_WALL_S), budget(SHARD_BUDGET_S):
                _MOD.run_shard(shard, acc)
        except BudgetExceeded:
            # the exploration of this shard did not finish: some execution (implementation or harness) does not
            # terminate within the budget. Reported as a violation of the property (no result was produced).
            acc.violation("runner", "shard-timeout", {"shard": list(shard) if isinstance(shard, tuple) else shard},
                          expected="shard explored within %d s of CPU time" % SHARD_BUDGET_S, observed="CPU budget exceeded")
        except Exception as e:  # noqa: BLE001
            where = _raised_in_impl(e)
            if where is None:
                raise
            # an exception raised inside the implementation at a call the check makes unguarded, i.e. where the
            # unchanged tree always returns: the exploration stopped there. A verdict, not a harness error.
            acc.violation("runner", "escaped-exception", {"shard": list(shard) if isinstance(shard, tuple) else shard},
                          expected="every execution of the shard returns to the check",
                          observed="%s: %s (raised at %s)" % (type(e).__name__, e, where))
        minimise_all(_MOD, acc)
    except Exception:  # harness problem, not a verdict
        return dict(error="shard %r: %s" % (shard, traceback.format_exc()))
    finally:
        if cov is not None:
            cov.stop()
            cov.save()
    out = acc.export()
    out["wall"] = time.time() - t0
    out["shard"] = shard
    return out


def _exc_class(obs):
    """'TypeError: ...' -> 'TypeError' (observations of escaped exceptions start with the class name)."""
    if isinstance(obs, str) and ":" in obs:
        head = obs.split(":", 1)[0]
        if head.replace("_", "").replace(".", "").isalnum():
            return head
    if isinstance(obs, (list, tuple)) and len(obs) == 2 and obs[0] == "exception":
        return _exc_class(obs[1])
    return None


def _same_failure(v, ref):
    """Same sub-check, same kind and - for escaped exceptions - the same exception class, so that shrinking
    cannot slide from one root cause into another."""
    return (v is not None and v["sub"] == ref["sub"] and v["kind"] == ref["kind"]
            and _exc_class(v.get("observed")) == _exc_class(ref.get("observed")))


def check_one(mod, sub, case):
    """Run implementation + model on one case; return a violation dict or None."""
    acc = Acc()
    if sub == "runner":
        shard = case["shard"]
        shard = tuple(tuple(x) if isinstance(x, list) else x for x in shard) if isinstance(shard, list) else shard
        try:
            with budget(SHARD_BUDGET_S):
                mod.run_shard(shard, Acc())
        except BudgetExceeded:
            acc.violation("runner", "shard-timeout", case, expected="terminates", observed="CPU budget exceeded")
        except Exception as e:  # noqa: BLE001
            where = _raised_in_impl(e)
            if where is None:
                raise
            acc.violation("runner", "escaped-exception", case, expected="every execution of the shard returns to the check",
                          observed="%s: %s (raised at %s)" % (type(e).__name__, e, where))
        return acc.viol[0] if acc.viol else None
    mod.check_case(sub, case, acc)
    return acc.viol[0] if acc.viol else None


def minimise(mod, v, max_steps=400):
    """Deterministic greedy shrinking by re-exploration of sub-cases."""
    shrink = getattr(mod, "shrink", None)
    if shrink is None or v["sub"] == "runner":
        return v  # (a runner-level witness is a whole shard: nothing for the property's shrinker to work on)
    steps = 0
    progress = True
    t_stop = time.time() + 3.0  # per-witness wall budget
    while progress and steps < max_steps and time.time() < t_stop:
        progress = False
        for cand in shrink(v["sub"], v["case"]):
            steps += 1
            if steps >= max_steps:
                break
            try:
                w = check_one(mod, v["sub"], cand)
            except BudgetExceeded:
                raise
            except Exception:
                continue
            if _same_failure(w, v):
                v = w
                progress = True
                break
    return v


SHARD_BUDGET_S = 900  # CPU seconds per shard (typical shards need 1-60 s)
MINIMISE_BUDGET_S = 12.0  # wall-clock budget for shrinking per shard; afterwards witnesses are kept as found


def minimise_all(mod, acc):
    seen = {}
    out = []
    t_end = time.time() + MINIMISE_BUDGET_S
    for v in acc.viol:
        m = minimise(mod, v, max_steps=400 if time.time() < t_end else 0)
        sig = signature(mod, m)
        m["signature"] = sig
        if sig not in seen:
            seen[sig] = m
            out.append(m)
        else:
            seen[sig]["dups"] = seen[sig].get("dups", 0) + 1
    acc.viol = out


def signature(mod, v):
    f = getattr(mod, "signature", None)
    if v["sub"] == "runner":
        obs = v.get("observed")
        return "%s.runner.%s.%s" % (mod.ID, v["kind"], (_exc_class(obs) or "") if isinstance(obs, str) else "")
    if f is not None:
        s = f(v["sub"], v["case"], v)
        if s:
            return s
    return "%s.%s" % (v["sub"], v["kind"])


# ----------------------------------------------------------------------------
# known findings


def load_known():
    p = os.path.join(VERIF, "known_findings.json")
    if not os.path.exists(p):
        return []
    with open(p) as f:
        return json.load(f)


def _match_field(spec, value):
    if isinstance(spec, dict) and "regex" in spec:
        s = value if isinstance(value, str) else json.dumps(value, ensure_ascii=False)
        return re.fullmatch(spec["regex"], s, re.S) is not None
    return spec == value


def match_known(known, prop, v):
    """Return the open known-finding entry that covers violation v, or None."""
    for k in known:
        if k.get("property") != prop or k.get("status") != "open":
            continue
        if k.get("subcheck") not in (None, v["sub"]):
            continue
        witness = dict(v["case"]) if isinstance(v["case"], dict) else {"case": v["case"]}
        witness["signature"] = v.get("signature")
        witness["kind"] = v["kind"]
        witness["observed"] = v.get("observed")
        ok = True
        for field, spec in (k.get("where") or {}).items():
            if field not in witness or not _match_field(spec, witness[field]):
                ok = False
                break
        if ok:
            return k
    return None


# ----------------------------------------------------------------------------
# replays


def _slug(s):
    import hashlib

    h = hashlib.blake2b(s.encode("utf-8", "surrogatepass"), digest_size=3).hexdigest()
    s = re.sub(r"[^A-Za-z0-9_.-]+", "_", s)[:80].strip("_")
    return (s or "case") + "." + h


_TEST_TMPL = '''"""Stand-alone replay of a violation of property {prop} ({sig}).

Run: /venv/bin/python -m pytest {name}   (needs only /repo on sys.path and /verif for the model)
"""
import json, os, sys
sys.path.insert(0, os.environ.get("VERIF_REPO", "/repo"))
sys.path.insert(0, {verif!r})

def test_replay():
    from mc import run
    v = run.replay_file({path!r})
    assert v is None, v
'''


def write_replay(prop, v, tier, how):
    d = os.path.join(VERIF, "replays", prop)
    os.makedirs(d, exist_ok=True)
    slug = _slug(v["signature"])
    path = os.path.join(d, slug + ".json")
    from .jsonutil import jsonable

    with open(path, "w") as f:
        json.dump(
            dict(
                property=prop,
                subcheck=v["sub"],
                kind=v["kind"],
                signature=v["signature"],
                case=jsonable(v["case"]),
                expected=jsonable(v.get("expected")),
                observed=jsonable(v.get("observed")),
                note=v.get("note"),
                tier=tier,
                how_found=how,
            ),
            f,
            indent=1,
            ensure_ascii=True,
        )
    mod = load_prop(prop)
    src = None
    if hasattr(mod, "standalone"):
        try:
            src = mod.standalone(v["sub"], v["case"], v)
        except Exception:
            src = None
    if src is None:
        src = _TEST_TMPL.format(prop=prop, sig=v["signature"], name="test_" + slug + ".py", verif=VERIF, path=path)
    with open(os.path.join(d, "test_" + slug.replace(".", "_").replace("-", "_") + ".py"), "w") as f:
        f.write(src)
    return path


def replay_file(path):
    with open(path) as f:
        r = json.load(f)
    detach_stdin()
    bind_repo()
    mod = load_prop(r["property"])
    return check_one(mod, r["subcheck"], r["case"])


# ----------------------------------------------------------------------------


def load_prop(prop):
    return importlib.import_module("mc.props." + prop.lower())


def run(prop, tier, seed):
    global _MOD
    t0 = time.time()
    detach_stdin()
    jp = bind_repo()
    mod = load_prop(prop)
    _MOD = mod
    # 1. reference-model self tests (harness error if they fail)
    n_self = 0
    if hasattr(mod, "selftest"):
        try:
            n_self = mod.selftest() or 0
        except Exception:
            raise HarnessError("self-test of the reference model failed:\n" + traceback.format_exc())
    # 2. plan + explore
    shards = list(mod.plan(tier, seed))
    jobs = int(os.environ.get("VERIF_JOBS", "16"))
    results = []
    if jobs <= 1 or len(shards) <= 1:
        for s in shards:
            results.append(_worker(s))
    else:
        ctx = multiprocessing.get_context("fork")
        with ctx.Pool(min(jobs, len(shards))) as pool:
            for r in pool.imap_unordered(_worker, shards, chunksize=1):
                results.append(r)
    errs = [r["error"] for r in results if "error" in r]
    if errs:
        raise HarnessError("worker failure:\n" + "\n".join(errs[:5]))
    results.sort(key=lambda r: repr(r["shard"]))
    # 3. merge
    tot = dict(evals=0, trans=0, traces=0, nstates=0, nnontrivial=0, raw_viol=0)
    outcomes = set()
    counters = collections.Counter()
    samples = {}
    viols = []
    info = {}
    for r in results:
        for k in tot:
            tot[k] += r[k]
        outcomes |= r["outcomes"]
        counters.update(r["counters"])
        for sub, ss in r["samples"].items():
            cur = samples.setdefault(sub, [])
            if not cur:
                cur.extend(ss[:2])
            if len(ss) > 2 or (cur and ss):
                last = ss[-1]
                if len(cur) >= 3:
                    cur[2] = last
                elif last not in cur:
                    cur.append(last)
        viols.extend(r["viol"])
        for k, val in r["info"].items():
            info.setdefault(k, val)
    info["slowest_shards"] = [[repr(r["shard"])[:80], round(r["wall"], 1)] for r in sorted(results, key=lambda r: -r["wall"])[:5]]
    # 4. vacuity guard
    req = getattr(mod, "REQUIRE", {})
    if callable(req):
        req = req(tier)
    missing = [k for k, n in req.items() if counters.get(k, 0) < n]
    vacuity = None
    if missing:
        vacuity = "vacuity guard: coverage facts not met: %s (have %s)" % (
            missing, {k: counters.get(k, 0) for k in missing})
    elif tot["evals"] == 0 or len(outcomes) < 2:
        vacuity = "vacuity guard: evals=%d distinct outcomes=%d" % (tot["evals"], len(outcomes))
    if vacuity and not viols:
        # (with violations present the exploration may legitimately have stopped early; report those instead)
        raise HarnessError(vacuity)
    # 5. cluster violations by signature, smallest witness first
    from .jsonutil import jdump, jsonable

    clusters = {}
    known = load_known()
    for v in viols:
        # a witness covered by a recorded finding never represents (and so never hides) one that is not: the two kinds
        # are clustered apart even when their signatures coincide
        sig = v["signature"] if match_known(known, prop, v) is None else "known-finding/" + v["signature"]
        cur = clusters.get(sig)
        size = len(jdump(jsonable(v["case"])))
        if cur is None or size < cur[0]:
            dups = (cur[1].get("dups", 0) + 1 if cur else 0) + v.get("dups", 0)
            v["dups"] = dups
            clusters[sig] = (size, v)
        else:
            cur[1]["dups"] = cur[1].get("dups", 0) + 1 + v.get("dups", 0)
    n_viol = 0
    n_known = 0
    lines = []
    for sig in sorted(clusters):
        v = clusters[sig][1]
        sig = v["signature"]
        # determinism: re-execute from the recorded case before reporting
        again = check_one(mod, v["sub"], json.loads(json.dumps(jsonable(v["case"]))) if getattr(mod, "JSON_CASES", True) else v["case"])
        diverged = not _same_failure(again, v)
        k = match_known(known, prop, v)
        path = write_replay(prop, v, tier, "enumeration")
        if k is not None:
            n_known += 1
            lines.append("KNOWN-FINDING: property=%s %s [%s] replay=%s" % (prop, k.get("what", sig), sig, path))
        else:
            n_viol += 1
            lines.append("VIOLATION property=%s replay=%s" % (prop, path))
            if diverged:
                # the exploration observed the violation; re-executing the recorded (minimised) case did not show the
                # same failure. Reported all the same (everything is deterministic, so this points at the replay path
                # of the check, not at the verdict), but flagged so that it gets looked at.
                lines.append("  HARNESS-WARNING replay of the recorded case diverged: %r" % (again,))
            lines.append("  signature=%s case=%s expected=%s observed=%s" % (
                sig, jdump(jsonable(v["case"]))[:300], jdump(jsonable(v.get("expected")))[:200],
                jdump(jsonable(v.get("observed")))[:200]))
    wall = time.time() - t0
    # 6. evidence
    # a shard stopped by its violation cap or by a budget was not explored to the end: the run is not exhaustive
    cap_hit = any(len(r["viol"]) >= MAX_VIOL_PER_SHARD for r in results) or any(
        v.get("sub") == "runner" or v.get("subcheck") == "runner" for v in viols)
    sample_list = []
    for sub in sorted(samples):
        for c in samples[sub]:
            sample_list.append({"subspace": sub, "case": jsonable(c)})
    ev = dict(
        property_id=prop,
        tier=tier,
        seed=seed,
        level="model_checking",
        coverage=dict(
            states=tot["nstates"],
            transitions=tot["trans"],
            traces_validated_against_impl=tot["traces"] or tot["evals"],
            evaluations=tot["evals"],
            distinct_nontrivial=tot["nnontrivial"],
            distinct_outcomes=len(outcomes),
            rule=getattr(mod, "RULE", ""),
            exhaustive=bool(info.get("exhaustive", True)) and not cap_hit,
            bounds=mod.bounds(tier, seed) if hasattr(mod, "bounds") else {},
            shards=len(shards),
            counters={k: counters[k] for k in sorted(counters)},
            samples=sample_list[:60],
            reference_model_selftests=n_self,
            raw_violating_cases=tot["raw_viol"],
            violation_clusters=len(clusters),
            known_findings_matched=n_known,
            info={k: jsonable(v) for k, v in info.items()},
        ),
        assumptions=list(getattr(mod, "ASSUMPTIONS", [])),
        wall_s=round(wall, 3),
        violations=n_viol,
    )
    # evidence under /verif always describes /repo itself; a run against a scratch tree (VERIF_REPO) writes elsewhere
    evdir = os.path.join(VERIF, "evidence") if os.path.realpath(REPO) == "/repo" else os.environ.get(
        "VERIF_EVIDENCE_DIR", "/tmp/verif-scratch-evidence")
    os.makedirs(evdir, exist_ok=True)
    with open(os.path.join(evdir, prop + ".json"), "w") as f:
        json.dump(ev, f, indent=1, ensure_ascii=True)
    for ln in lines:
        print(ln)
    print("%s %s seed=%d: states=%d transitions=%d distinct_outcomes=%d clusters=%d known=%d violations=%d wall=%.1fs" % (
        prop, tier, seed, tot["nstates"], tot["trans"], len(outcomes), len(clusters), n_known, n_viol, wall))
    return 1 if n_viol else 0


def main(argv):
    if len(argv) < 2:
        print("usage: check <ID> quick|thorough | check <ID> --replay <file>")
        return 2
    prop = argv[0].upper()
    try:
        if argv[1] == "--replay":
            v = replay_file(argv[2])
            if v is None:
                print("replay passes on the current tree: %s" % argv[2])
                return 0
            print("VIOLATION property=%s replay=%s" % (prop, argv[2]))
            print("  %s" % json.dumps(v, default=repr)[:600])
            return 1
        tier = os.environ.get("VERIF_TIER") or argv[1]
        if tier not in ("quick", "thorough"):
            print("unknown tier %r" % tier)
            return 2
        seed = int(os.environ.get("VERIF_SEED", "0") or 0)
        return run(prop, tier, seed)
    except HarnessError as e:
        print("HARNESS-ERROR property=%s: %s" % (prop, e))
        return 2


if __name__ == "__main__":
    sys.exit(main(sys.argv[1:]))
