"""C03 - every match location (path, parts, pointer, parent) identifies exactly that node."""
from ..gen import matchspace, spell
from ..jsonutil import ckey
from ..ref import rnorm, rpath, rptr
from .common import chunks, shrink_doc, tup, type_tag

ID = "C03"
RULE = (
    "for every member name over the 25-character alphabet up to the length bound plus look-alikes: six documents using "
    "the name (unique list objects as leaves, and a colliding flavour with equal values at different places) x 20 queries "
    "(wildcards, descendants, negative indices, negative-step slices, filters, names, lists); plus index-like-key documents. "
    "Every match is checked: normalized path grammar + canonical print, path re-evaluates to exactly that object, parts walk, "
    "pointer / pointer text re-parsed resolve to the object, parent chain; across all matches of a document equal paths iff "
    "equal parts iff same location; views list the same. state = distinct (document, query); non-trivial = at least one match"
)
ASSUMPTIONS = [
    "reference: mc/ref/rnorm.py (RFC 9535 2.7 grammar/printer, self-tested on the RFC table), rpath.py for expected locations",
    "pointer text is re-parsed with unicode_escape=False always and with the default decoder when it has no backslash",
    "keys selector and fake root not generated (outside the property)",
]


def _beyond_limit(loc):
    for t in loc:
        if isinstance(t, str):
            i = rptr.canonical_index(t[1:] if t[:1] == "-" and t != "-0" else t)
            if i is not None and i > 2 ** 53 - 1 and (t[:1] != "-" or t[1:2] != "0"):
                return True
    return False


def selftest():
    from ..ref import selftest_path

    return rnorm.selftest() + selftest_path.run()


def bounds(tier, seed):
    return {"name_len": 2 if tier == "quick" else 3, "names": len(matchspace.names(2 if tier == "quick" else 2)),
            "docs_per_name": 6, "queries_per_name": 20}


def plan(tier, seed):
    shards = []
    ns = matchspace.names(2)
    for part in chunks(list(range(len(ns))), 12):
        shards.append(("N", 2, part[0], part[-1] + 1))
    shards.append(("IDX",))
    if tier == "thorough":
        from ..gen.alpha import strings_upto

        n3 = len(strings_upto(3))
        for lo in range(0, n3, 250):
            shards.append(("N3", lo, min(n3, lo + 250)))
    return shards


def run_shard(shard, acc):
    if shard[0] == "N":
        for nm in matchspace.names(2)[shard[2]:shard[3]]:
            qs = matchspace.name_queries(nm)
            for doc in matchspace.name_docs(nm):
                _check_doc("N", doc, qs, acc)
    elif shard[0] == "N3":
        from ..gen.alpha import strings_upto

        for nm in strings_upto(3)[shard[1]:shard[2]]:
            if len(nm) < 3:
                continue
            qs = matchspace.name_queries(nm)
            qs = [qs[0], qs[8], qs[9], qs[10], qs[6]]
            for doc in matchspace.name_docs(nm)[:3]:
                _check_doc("N", doc, qs, acc)
    else:
        qs = matchspace.index_queries()
        for doc in matchspace.index_docs():
            _check_doc("IDX", doc, qs, acc)


def _walk(doc, parts):
    cur = doc
    for p in parts:
        cur = cur[p]
    return cur


def _check_doc(sub, doc, queries, acc, record=True):
    import jsonpath
    from jsonpath import JSONPointer, NodeList

    seen_by_path = {}
    seen_by_parts = {}
    for q in queries:
        text = spell.text(q)
        case = {"doc": doc, "q": q, "text": text}
        try:
            p = jsonpath.compile(text)
            matches = list(p.finditer(doc))
        except Exception as e:  # noqa: BLE001
            acc.violation(sub, "query-failed", case, expected="compiles and evaluates", observed="%s: %s" % (type(e).__name__, e))
            continue
        exp = rpath.nodelist(q, doc)
        if record:
            acc.case(sub, (ckey(doc), text), outcome=tuple(loc for loc, _ in exp), nontrivial=bool(exp),
                     trans=max(1, len(matches)))
            acc.count("matches", len(matches))
            if acc.evals % 1500 == 1:
                acc.sample(sub, {"doc": doc, "query": text, "paths": [m.path for m in matches][:6]})
        if [tuple(m.parts) for m in matches] != [loc for loc, _ in exp]:
            acc.violation(sub, "locations", case, expected=[list(loc) for loc, _ in exp], observed=[list(m.parts) for m in matches])
            continue
        for m, (loc, val) in zip(matches, exp):
            bad = None
            try:
                if m.obj is not val:
                    bad = ("obj-identity", "the node at %r" % (loc,), repr(m.obj)[:60])
                if bad is None:
                    want = rnorm.print_path(list(loc))
                    try:
                        rnorm.parse(m.path)
                        ok = True
                    except ValueError as e:
                        ok = False
                        bad = ("path-not-normalized", want, "%s (%s)" % (m.path, e))
                    if ok and m.path != want:
                        bad = ("path-not-canonical", want, m.path)
                if bad is None:
                    again = jsonpath.findall(m.path, doc)
                    if len(again) != 1 or again[0] is not m.obj:
                        bad = ("path-reevaluation", "exactly the matched object", repr(again)[:80])
                if bad is None and _walk(doc, m.parts) is not m.obj:
                    bad = ("parts-walk", "the matched object", "other")
                if bad is None:
                    ptr = m.pointer()
                    if ptr.resolve(doc) is not m.obj:
                        bad = ("pointer-resolve", "the matched object", "other")
                    else:
                        ptext = str(ptr)
                        if ptext != rptr.encode(rptr.loc_tokens(loc)):
                            bad = ("pointer-text", rptr.encode(rptr.loc_tokens(loc)), ptext)
                        elif _beyond_limit(loc):
                            # parsing a pointer *text* with a digits-only token beyond the index limit is the documented
                            # construction-time error: for such names the match's own pointer (checked above) is all
                            pass
                        elif JSONPointer(ptext, unicode_escape=False).resolve(doc) is not m.obj:
                            bad = ("pointer-reparse", "the matched object", "other (unicode_escape=False)")
                        elif "\\" not in ptext and JSONPointer(ptext).resolve(doc) is not m.obj:
                            bad = ("pointer-reparse", "the matched object", "other (default decoder)")
                        elif not (JSONPointer(ptext, unicode_escape=False) == ptr):
                            bad = ("pointer-eq-reparse", "equal", "unequal")
                if bad is None:
                    par = m.parent
                    if not loc:
                        if par is not None:
                            bad = ("root-parent", None, repr(par)[:60])
                    elif par is None or tuple(par.parts) != loc[:-1] or par.obj is not _walk(doc, loc[:-1]):
                        bad = ("parent", list(loc[:-1]), None if par is None else list(par.parts))
                    else:
                        # the whole chain up to the root
                        cur, depth = par, len(loc) - 1
                        while cur is not None and depth >= 0:
                            if tuple(cur.parts) != loc[:depth]:
                                bad = ("parent-chain", list(loc[:depth]), list(cur.parts))
                                break
                            cur, depth = cur.parent, depth - 1
                        if bad is None and (cur is not None or depth != -1):
                            bad = ("parent-chain-length", "ends at the root", "depth %d" % depth)
            except Exception as e:  # noqa: BLE001
                bad = ("exception", "no exception", "%s: %s" % (type(e).__name__, e))
            if bad:
                c = dict(case)
                c["location"] = list(loc)
                acc.violation(sub, bad[0], c, expected=bad[1], observed=bad[2])
                break
            # (5) equal paths iff equal parts iff same node
            o = seen_by_path.setdefault(m.path, loc)
            o2 = seen_by_parts.setdefault(loc, m.path)
            if o != loc or o2 != m.path:
                c = dict(case)
                c["location"] = list(loc)
                acc.violation(sub, "path-conflation", c, expected="equal paths iff same node", observed=[m.path, list(o), o2])
                break
        # views
        try:
            paths = [m.path for m in matches]
            v1 = NodeList(p.finditer(doc)).paths()
            v2 = list(jsonpath.query(text, doc).locations())
            v3 = [str(x) for x in jsonpath.query(text, doc).pointers()]
            v4 = [(a, b) for a, b in jsonpath.query(text, doc).items()]
            if v1 != paths or v2 != paths or v3 != [str(m.pointer()) for m in matches] or [a for a, _ in v4] != paths \
                    or any(b is not m.obj for (_, b), m in zip(v4, matches)):
                acc.violation(sub, "views", case, expected=paths, observed=[v1, v2, v3])
        except Exception as e:  # noqa: BLE001
            acc.violation(sub, "exception", case, expected="views", observed="%s: %s" % (type(e).__name__, e))


REQUIRE = {"matches": 10000}


def check_case(sub, case, acc):
    _check_doc(sub, case["doc"], [tup(case["q"])], acc, record=False)


def shrink(sub, case):
    q = tup(case["q"])
    for d2 in shrink_doc(case["doc"]):
        if isinstance(d2, (list, dict)):
            yield {"doc": d2, "q": q, "text": case.get("text")}


def signature(sub, case, v):
    from .c04 import _tok_class

    loc = case.get("location")
    doc = case["doc"]
    names = set()

    def walk(d):
        if isinstance(d, dict):
            for k, x in d.items():
                names.add(_tok_class(k))
                walk(x)
        elif isinstance(d, list):
            for x in d:
                walk(x)

    if loc:
        for t in loc:
            if isinstance(t, str):
                names.add(_tok_class(t))
    else:
        walk(doc)
    names.discard("a")
    obs = v.get("observed")
    extra = ""
    if v["kind"] in ("exception", "query-failed"):
        import re
        extra = "." + re.sub(r"[^A-Za-z:]+", " ", str(obs))[:40]
    return "C03.%s.names(%s)%s" % (v["kind"], ",".join(sorted(names)), extra)
