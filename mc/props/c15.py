"""C15 - A patch is a faithful, reusable value: document, builder and dict forms agree.

E-HIST over {construct by 4 routes, asdicts, apply to a fresh equal document, apply
again, edit a previous result, apply again}; op lists enumerated from the C05 menu
(plus addne/addap) with the menu recomputed after each operation so that later
operations reach inside container values introduced by earlier ones.
"""
import json

from ..jsonutil import ckey, deep_copy, is_json, jeq, jeq_ordered, mutable_ids
from ..ref import rpatch, rptr
from . import c05
from .common import type_tag

ID = "C15"
RULE = (
    "operation lists of length 1, 2 (thorough 3 over a reduced menu) over the eight operation names, paths from the C05 "
    "menu recomputed from the model state (so later operations edit containers introduced by earlier ones), on 10 start "
    "documents; each list is built by five routes (list of dicts, builder chain with texts, builder chain with JSONPointer objects built from token lists, the patch's own asdicts(), JSON text); "
    "then the history apply / asdicts / apply-again / edit-first-result / apply-again is run on real objects. "
    "state = distinct (start document, op list); non-trivial = reference applies the list without error"
)
ASSUMPTIONS = [
    "reference model mc/ref/rpatch.py incl. addne/addap (the two documented differences only)",
    "results compared as JSON values (typed, str keys); sharing = identity of mutable containers",
]


def selftest():
    return rpatch.selftest()


def docs():
    ex = [deep_copy(d) for d in c05.EXTRA_START]
    return [ex[0], ex[1], ex[2], ex[4], ex[6], ex[7], {"a": {"b": [1]}}, [[], {}], {"a": 1}, [1, 2]]


def menu(doc, reduced=False):
    ops = c05.menu(doc, reduced=reduced)
    extra = []
    for op in ops:
        if op["op"] == "add" and (not reduced or op["value"] is True):
            for name in ("addne", "addap"):
                o = dict(op)
                o["op"] = name
                extra.append(o)
    return ops + extra


def bounds(tier, seed):
    return {"docs": len(docs()), "len1": "full menu", "len2": "2 docs + 1 chosen by VERIF_SEED: full first op x reduced second op" if tier == "quick" else "full x full on all docs",
            "len3": "none" if tier == "quick" else "reduced menu on the 5 smallest docs (%s)" % (L3_DOCS,)}


# length-3 lists are cubic in the menu: the documents whose reduced menus keep a shard far below the CPU budget
L3_DOCS = (4, 5, 7, 8, 9)


def plan(tier, seed):
    shards = []
    nd = len(docs())
    for i in range(nd):
        shards.append(("L1", i))
        if tier == "thorough" or i < 2:
            for k in range(16):
                shards.append(("L2", i, k, 16, tier == "thorough"))
    if tier == "quick":
        i = 2 + seed % (nd - 2)
        for k in range(16):
            shards.append(("L2", i, k, 16, False))
    else:
        for i in L3_DOCS:
            for k in range(48):
                shards.append(("L3", i, k, 48))
    shards.append(("OPT",))
    return shards


OPT_PATHS = ["/a%20b", "/a b", "/\\u0061", "/a", "/a%2Fb/0", "/%7E", "/x%20\\u0062",
             # texts whose single decoding still holds an escape sequence: decoding must happen exactly once
             "/%2541", "/\\u005cu0061", "/%5Cu0061", "/%255Cu0061"]
OPT_DOC = {"a b": [1], "a": [2], "a%20b": [3], "\\u0061": [4], "a/b": [5], "a%2Fb": [6], "~": [7], "%7E": [8], "x b": [9],
           "x%20b": [10], "x \\u0062": [11], "x%20\\u0062": [12], "%2541": [13], "%41": [14], "A": [15], "\\u005cu0061": [16],
           "%5Cu0061": [17], "%255Cu0061": [18]}


def _opt_tokens(path, ue, ud):
    """Reference decoding of a pointer text under the two decoder options (urllib.parse.unquote, then \\uXXXX)."""
    import re
    from urllib.parse import unquote

    t = path
    if ud:
        t = unquote(t)
    if ue:
        t = re.sub(r"\\u([0-9a-fA-F]{4})", lambda m: chr(int(m.group(1), 16)), t)
    return rptr.parse(t)


def _options(acc):
    """Routes must agree under every decoder-option combination, whatever was built before in this process."""
    import itertools

    from jsonpath import JSONPatch, JSONPointer

    combos = [(True, False), (True, True), (False, False), (False, True)]
    for order in itertools.permutations(combos):
        for path in OPT_PATHS:
            for ue, ud in order:
                toks = _opt_tokens(path, ue, ud)
                want_text = rptr.encode(toks)
                op = {"op": "add", "path": path + "/-", "value": 0}
                try:
                    exp = ("doc", rpatch.add(OPT_DOC, toks + ["-"], 0))
                except rpatch.PatchError:
                    exp = ("error",)
                routes = [("dicts", lambda: JSONPatch([dict(op)], unicode_escape=ue, uri_decode=ud)),
                          ("builder", lambda: JSONPatch(unicode_escape=ue, uri_decode=ud).add(op["path"], 0)),
                          ("json", lambda: JSONPatch(json.dumps([op]), unicode_escape=ue, uri_decode=ud)),
                          ("builder-pointer", lambda: JSONPatch(unicode_escape=ue, uri_decode=ud).add(
                              JSONPointer(op["path"], unicode_escape=ue, uri_decode=ud), 0)),
                          # the patch's own list-of-dicts output, loaded again under the same options
                          ("asdicts", lambda: JSONPatch(JSONPatch([dict(op)], unicode_escape=ue, uri_decode=ud).asdicts(),
                                                        unicode_escape=ue, uri_decode=ud))]
                for name, mk in routes:
                    bad = None
                    try:
                        p = mk()
                        d = p.asdicts()
                        if d[0]["path"] != want_text + "/-":
                            bad = ("option-route-text." + name, want_text + "/-", d[0]["path"])
                        else:
                            got = _apply(p, deep_copy(OPT_DOC))
                            if not _same(exp, got):
                                bad = ("option-route-effect." + name, list(exp), list(got))
                    except Exception as e:  # noqa: BLE001
                        bad = ("exception", "no exception", "%s: %s" % (type(e).__name__, e))
                    acc.case("OPT", (order, path, ue, ud, name), outcome=want_text, nontrivial=exp[0] == "doc")
                    acc.count("OPT.routes")
                    if bad:
                        # (the exploration goes on: a recorded finding must not hide a different violation)
                        acc.violation("OPT", bad[0], {"path": path, "unicode_escape": ue, "uri_decode": ud, "route": name,
                                                      "order": [list(c) for c in order]}, expected=bad[1], observed=bad[2])


def run_shard(shard, acc):
    kind = shard[0]
    ds = docs()
    if kind == "OPT":
        _options(acc)
        return
    if kind == "L1":
        doc = ds[shard[1]]
        for op in menu(doc):
            _run("L1", doc, [op], acc)
    elif kind == "L2":
        _, i, k, nk, full = shard
        doc = ds[i]
        for j, op1 in enumerate(menu(doc)):
            if j % nk != k:
                continue
            try:
                mid = rpatch.apply_op(deep_copy(doc), op1)
            except rpatch.PatchError:
                continue
            for op2 in menu(mid, reduced=not full):
                _run("L2", doc, [op1, op2], acc)
    elif kind == "L3":
        _, i, k, nk = shard
        doc = ds[i]
        for j, op1 in enumerate(menu(doc, reduced=True)):
            if j % nk != k:
                continue
            try:
                mid = rpatch.apply_op(deep_copy(doc), op1)
            except rpatch.PatchError:
                continue
            for op2 in menu(mid, reduced=True):
                try:
                    mid2 = rpatch.apply_op(deep_copy(mid), op2)
                except rpatch.PatchError:
                    continue
                for op3 in menu(mid2, reduced=True):
                    _run("L3", doc, [op1, op2, op3], acc)


def _build(ops, as_pointer=False):
    """Builder chain; with as_pointer the locations are given as JSONPointer objects built from token lists (their
    index tokens are held as strings, unlike those of a parsed pointer)."""
    from jsonpath import JSONPatch, JSONPointer

    def loc(text):
        if not as_pointer:
            return text
        return JSONPointer.from_parts(rptr.parse(text), unicode_escape=False)

    p = JSONPatch()
    for op in ops:
        name = op["op"]
        if name in ("add", "addne", "addap", "replace", "test"):
            p = getattr(p, name)(loc(op["path"]), op["value"])
        elif name == "remove":
            p = p.remove(loc(op["path"]))
        else:
            p = getattr(p, name)(loc(op["from"]), loc(op["path"]))
    return p


def _apply(patch, doc):
    from jsonpath.exceptions import JSONPatchError, JSONPatchTestFailure

    try:
        return ("doc", patch.apply(doc))
    except JSONPatchTestFailure:
        return ("test-failure",)
    except JSONPatchError:
        return ("error",)
    except Exception as e:  # noqa: BLE001
        return ("exception", "%s: %s" % (type(e).__name__, e))


def _same(exp, got):
    if exp[0] == "doc":
        return got[0] == "doc" and is_json(got[1]) and jeq(got[1], exp[1])
    if exp[0] == "test-failure":
        return got[0] == "test-failure"
    return got[0] in ("error", "test-failure")


def _scribble(v):
    """Edit every mutable container inside a previous result."""
    if isinstance(v, list):
        for x in v:
            _scribble(x)
        v.append("SCRIBBLE")
    elif isinstance(v, dict):
        for x in list(v.values()):
            _scribble(x)
        v["SCRIBBLE"] = 1


def _run(sub, doc, ops, acc, record=True):
    from jsonpath import JSONPatch

    snap = deep_copy(ops)
    # (addap onto a token that is not an array index at all - '01', 'x', '#0' - has no index to "fail to resolve": the
    # reference treats it as add, i.e. an error)
    try:
        exp = ("doc", rpatch.apply(doc, ops))
    except rpatch.TestFailure:
        exp = ("test-failure",)
    except rpatch.PatchError:
        exp = ("error",)
    bad = None
    try:
        caller = deep_copy(ops)
        routes = [("dicts", JSONPatch(caller)), ("builder", _build(deep_copy(ops))), ("json", JSONPatch(json.dumps(ops))),
                  ("builder-pointers", _build(deep_copy(ops), as_pointer=True))]
        routes.append(("asdicts", JSONPatch(routes[0][1].asdicts())))
        for name, p in routes:
            d = p.asdicts()
            if not (isinstance(d, list) and len(d) == len(snap) and all(jeq_ordered(a, b) or jeq(a, b) for a, b in zip(d, snap))):
                bad = ("asdicts." + name, snap, d)
                break
            got = _apply(p, deep_copy(doc))
            if not _same(exp, got):
                bad = ("effect." + name, list(exp), list(got))
                break
        if bad is None:
            p = routes[0][1]
            r1 = _apply(p, deep_copy(doc))
            if not jeq(caller, snap):
                bad = ("caller-list-changed", snap, caller)
            elif not jeq(p.asdicts(), snap):
                bad = ("patch-changed-by-apply", snap, p.asdicts())
            else:
                r2 = _apply(p, deep_copy(doc))
                if not _same(exp, r2):
                    bad = ("second-application", list(exp), list(r2))
                elif exp[0] == "doc":
                    ids1, ids2 = mutable_ids(r1[1]), mutable_ids(r2[1])
                    idc = mutable_ids([o.get("value") for o in caller])
                    idp = mutable_ids([o.get("value") for o in p.asdicts()])
                    if ids1 & ids2:
                        bad = ("results-share-state", "independent results", "shared containers: %d" % len(ids1 & ids2))
                    elif (ids1 | ids2) & idc:
                        bad = ("result-shares-caller-value", "independent of the caller's values", "shared")
                    elif (ids1 | ids2) & idp:
                        bad = ("result-shares-patch-value", "independent of the patch's values", "shared")
                    else:
                        _scribble(r1[1])
                        r3 = _apply(p, deep_copy(doc))
                        if not _same(exp, r3):
                            bad = ("application-after-edit", list(exp), list(r3))
                        elif not jeq(p.asdicts(), snap) or not jeq(caller, snap):
                            bad = ("patch-changed-by-edit", snap, p.asdicts())
                        elif not jeq(r2[1], exp[1]):
                            bad = ("earlier-result-changed", exp[1], r2[1])
    except Exception as e:  # noqa: BLE001
        from jsonpath.exceptions import JSONPatchError

        if isinstance(e, JSONPatchError):
            bad = ("construction-refused", "patch constructible from valid operations", "%s: %s" % (type(e).__name__, e))
        else:
            bad = ("exception", "no exception", "%s: %s" % (type(e).__name__, e))
    if record:
        acc.case(sub, (ckey(doc), repr(ops)), outcome=(exp[0], ckey(exp[1]) if exp[0] == "doc" else None),
                 nontrivial=exp[0] == "doc", trans=8)
        acc.count("%s.%s" % (ops[-1]["op"], exp[0]))
        if any(isinstance(o.get("value"), (list, dict)) for o in ops[:-1]) and exp[0] == "doc":
            acc.count("container-value-then-later-op")
        if acc.evals % 3000 == 1:
            acc.sample(sub, {"doc": doc, "ops": ops, "expected": exp[0]})
    if bad:
        acc.violation(sub, bad[0], {"doc": doc, "ops": ops}, expected=bad[1], observed=bad[2])


def REQUIRE(tier):
    req = {"container-value-then-later-op": 100, "OPT.routes": 100}
    for op in ("add", "addne", "addap", "remove", "replace", "move", "copy", "test"):
        req[op + ".doc"] = 5
    return req


def check_case(sub, case, acc):
    if sub == "OPT":
        a = type(acc)()
        _options(a)
        same = [v for v in a.viol if all(v["case"].get(k) == case.get(k) for k in ("path", "unicode_escape", "uri_decode", "route"))]
        acc.viol.extend(same[:1])
        return
    _run(sub, case["doc"], case["ops"], acc, record=False)


def shrink(sub, case):
    if sub == "OPT":
        return iter(())
    return c05.shrink(sub, case)


def signature(sub, case, v):
    if sub == "OPT":
        return "C15.OPT.%s.ue=%s.ud=%s.%s" % (v["kind"], case["unicode_escape"], case["uri_decode"], case["path"])
    doc, ops = case["doc"], case["ops"]
    cur = doc
    parts = []
    for op in ops:
        s = op["op"]
        try:
            if "from" in op:
                s += "(to:%s)" % c05._target_class(cur, rptr.parse(op["path"]))
            else:
                s += "(%s)" % c05._target_class(cur, rptr.parse(op["path"]))
        except Exception:  # noqa: BLE001
            pass
        if "value" in op:
            s += "=" + type_tag(op["value"])
        parts.append(s)
        try:
            cur = rpatch.apply_op(deep_copy(cur), op)
        except rpatch.PatchError:
            break
    return "C15.%s.%s" % (v["kind"], ";".join(parts[-2:]))
