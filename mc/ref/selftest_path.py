"""Self-tests of rpath/rfilter against the example tables of RFC 9535 (copied from the RFC text)."""
from ..jsonutil import jeq_list
from .rpath import C, D, F, I, N, Q, S, W, values, slice_indices


def _q(*segs):
    return Q(*segs)


def at(*segs):
    return Q(*segs, root="@")


def T(q):
    return ("test", q)


def cmp(op, a, b):
    return ("cmp", op, a, b)


def L(v):
    return ("lit", v)


def q(*segs):
    return ("q", Q(*segs))


def qa(*segs):
    return ("q", at(*segs))


def call(name, *args):
    return ("call", name, list(args))


def run():
    n = 0

    def check(query, doc, expected):
        nonlocal n
        got = values(query, doc)
        assert jeq_list(got, expected), (query, got, expected)
        n += 1

    # 2.3.1.3 name selector
    d = {"o": {"j j": {"k.k": 3}}, "'": {"@": 2}}
    check(_q(C(N("o")), C(N("j j"))), d, [{"k.k": 3}])
    check(_q(C(N("o")), C(N("j j")), C(N("k.k"))), d, [3])
    check(_q(C(N("'")), C(N("@"))), d, [2])
    # 2.3.2.3 wildcard
    d = {"o": {"j": 1, "k": 2}, "a": [5, 3]}
    check(_q(C(W)), d, [{"j": 1, "k": 2}, [5, 3]])
    check(_q(C(N("o")), C(W)), d, [1, 2])
    check(_q(C(N("o")), C(W, W)), d, [1, 2, 1, 2])
    check(_q(C(N("a")), C(W)), d, [5, 3])
    # 2.3.3.3 index
    d = ["a", "b"]
    check(_q(C(I(1))), d, ["b"])
    check(_q(C(I(-2))), d, ["a"])
    check(_q(C(I(2))), d, [])
    check(_q(C(I(-3))), d, [])
    # 2.3.4.3 slice
    d = ["a", "b", "c", "d", "e", "f", "g"]
    check(_q(C(S(1, 3))), d, ["b", "c"])
    check(_q(C(S(5, None))), d, ["f", "g"])
    check(_q(C(S(1, 5, 2))), d, ["b", "d"])
    check(_q(C(S(5, 1, -2))), d, ["f", "d"])
    check(_q(C(S(None, None, -1))), d, ["g", "f", "e", "d", "c", "b", "a"])
    check(_q(C(S(None, None, 0))), d, [])
    # independent cross-check of Normalize/Bounds against explicit enumeration for small arrays
    for ln in range(0, 5):
        for st in (None, -6, -2, -1, 0, 1, 2, 6):
            for sp in (None, -6, -2, -1, 0, 1, 2, 6):
                for step in (None, -3, -2, -1, 1, 2, 3):
                    got = slice_indices(ln, st, sp, step)
                    exp = list(range(ln))[st:sp:step]  # Python slicing agrees with the RFC for step != 0
                    assert [list(range(ln))[i] for i in got] == exp, (ln, st, sp, step, got, exp)
                    n += 1
    # 2.3.5.3 filter selector examples
    d = {
        "a": [3, 5, 1, 2, 4, 6, {"b": "j"}, {"b": "k"}, {"b": {}}, {"b": "kilo"}],
        "o": {"p": 1, "q": 2, "r": 3, "s": 5, "t": {"u": 6}},
        "e": "f",
    }
    A = C(N("a"))
    O = C(N("o"))
    check(_q(A, C(F(cmp("==", qa(C(N("b"))), L("kilo"))))), d, [{"b": "kilo"}])
    check(_q(A, C(F(("paren", cmp("==", qa(C(N("b"))), L("kilo")))))), d, [{"b": "kilo"}])
    check(_q(A, C(F(cmp(">", qa(), L(3.5))))), d, [5, 4, 6])
    check(_q(A, C(F(T(at(C(N("b"))))))), d, [{"b": "j"}, {"b": "k"}, {"b": {}}, {"b": "kilo"}])
    check(_q(C(F(T(at(C(W)))))), d, [d["a"], d["o"]])
    check(_q(C(F(T(at(C(F(T(at(C(N("b"))))))))))), d, [d["a"]])
    check(_q(O, C(F(cmp("<", qa(), L(3))), F(cmp("<", qa(), L(3))))), d, [1, 2, 1, 2])
    check(_q(A, C(F(("or", cmp("<", qa(), L(2)), cmp("==", qa(C(N("b"))), L("k")))))), d, [1, {"b": "k"}])
    check(_q(A, C(F(call("match", qa(C(N("b"))), L("[jk]"))))), d, [{"b": "j"}, {"b": "k"}])
    check(_q(A, C(F(call("search", qa(C(N("b"))), L("[jk]"))))), d, [{"b": "j"}, {"b": "k"}, {"b": "kilo"}])
    check(_q(O, C(F(("and", cmp(">", qa(), L(1)), cmp("<", qa(), L(4)))))), d, [2, 3])
    check(_q(O, C(F(("or", T(at(C(N("u")))), T(at(C(N("x")))))))), d, [{"u": 6}])
    check(_q(A, C(F(cmp("==", qa(C(N("b"))), q(C(N("x"))))))), d, [3, 5, 1, 2, 4, 6])
    check(_q(A, C(F(cmp("==", qa(), qa())))), d, d["a"])
    # 2.3.5.3 comparison table (document {"obj": {"x":"y"}, "arr": [2,3]})
    d2 = {"obj": {"x": "y"}, "arr": [2, 3]}
    table = [
        ("==", q(C(N("absent1"))), q(C(N("absent2"))), True),
        ("<=", q(C(N("absent1"))), q(C(N("absent2"))), True),
        ("==", q(C(N("absent"))), L("g"), False),
        ("!=", q(C(N("absent1"))), q(C(N("absent2"))), False),
        ("!=", q(C(N("absent"))), L("g"), True),
        ("<=", L(1), L(2), True),
        (">", L(1), L(2), False),
        ("==", L(13), L("13"), False),
        ("<=", L("a"), L("b"), True),
        (">", L("a"), L("b"), False),
        ("==", q(C(N("obj"))), q(C(N("arr"))), False),
        ("!=", q(C(N("obj"))), q(C(N("arr"))), True),
        ("==", q(C(N("obj"))), q(C(N("obj"))), True),
        ("!=", q(C(N("obj"))), q(C(N("obj"))), False),
        ("==", q(C(N("arr"))), q(C(N("arr"))), True),
        ("!=", q(C(N("arr"))), q(C(N("arr"))), False),
        ("==", q(C(N("obj"))), L(17), False),
        ("!=", q(C(N("obj"))), L(17), True),
        ("<=", q(C(N("obj"))), q(C(N("arr"))), False),
        ("<", q(C(N("obj"))), q(C(N("arr"))), False),
        ("<=", q(C(N("obj"))), q(C(N("obj"))), True),
        ("<=", q(C(N("arr"))), q(C(N("arr"))), True),
        ("<=", L(1), q(C(N("arr"))), False),
        (">=", L(1), q(C(N("arr"))), False),
        (">", L(1), q(C(N("arr"))), False),
        ("<", L(1), q(C(N("arr"))), False),
        ("<=", L(True), L(True), True),
        (">", L(True), L(True), False),
    ]
    for op, a, b, exp in table:
        check(_q(C(F(cmp(op, a, b)))), d2, [d2['obj'], d2['arr']] if exp else [])
    # never identify a boolean with a number, at any depth
    check(_q(C(F(cmp("==", qa(), L(1))))), [True, 1, 1.0, [1], [True]], [1, 1.0])
    check(_q(C(F(cmp("==", qa(C(I(0))), L(True))))), [[1], [True]], [[True]])
    check(_q(C(F(cmp("<", L(False), L(True))))), [1], [])
    # 2.5.1.3 child segment
    d = ["a", "b", "c", "d", "e", "f", "g"]
    check(_q(C(I(0), I(3))), d, ["a", "d"])
    check(_q(C(S(0, 2), I(5))), d, ["a", "b", "f"])
    check(_q(C(I(0), I(0))), d, ["a", "a"])
    # 2.5.2.3 descendant segment
    d = {"o": {"j": 1, "k": 2}, "a": [5, 3, [{"j": 4}, {"k": 6}]]}
    check(_q(D(N("j"))), d, [1, 4])
    check(_q(D(I(0))), d, [5, {"j": 4}])
    allv = [{"j": 1, "k": 2}, [5, 3, [{"j": 4}, {"k": 6}]], 1, 2, 5, 3, [{"j": 4}, {"k": 6}], {"j": 4}, {"k": 6}, 4, 6]
    check(_q(D(W)), d, allv)
    check(_q(D(N("o"))), d, [{"j": 1, "k": 2}])
    check(_q(C(N("o")), D(W, W)), d, [1, 2, 1, 2])
    check(_q(C(N("a")), D(I(0), I(1))), d, [5, 3, {"j": 4}, {"k": 6}])
    # 2.6 null semantics
    d = {"a": None, "b": [None], "c": [{}], "null": 1}
    check(_q(C(N("a"))), d, [None])
    check(_q(C(N("a")), C(I(0))), d, [])
    check(_q(C(N("a")), C(N("d"))), d, [])
    check(_q(C(N("b")), C(I(0))), d, [None])
    check(_q(C(N("b")), C(W)), d, [None])
    check(_q(C(N("b")), C(F(T(at())))), d, [None])
    check(_q(C(N("b")), C(F(cmp("==", qa(), L(None))))), d, [None])
    check(_q(C(N("c")), C(F(cmp("==", qa(C(N("d"))), L(None))))), d, [])
    check(_q(C(N("null"))), d, [1])
    # 2.4.4-2.4.8 functions
    d = [{"authors": ["x", "y", "z"], "s": "abc"}, {"authors": ["x"], "s": "ab"}, {"s": 1}]
    check(_q(C(F(cmp(">=", call("length", qa(C(N("authors")))), L(3))))), d, [d[0]])
    check(_q(C(F(cmp("==", call("count", ("q", at(C(W), C(N("nope"))))), L(0))))), d, d)
    check(_q(C(F(cmp("==", call("count", ("q", at(C(N("authors")), C(W)))), L(1))))), d, [d[1]])
    check(_q(C(F(cmp("==", call("value", ("q", at(D(N("s"))))), L("ab"))))), d, [d[1]])
    check(_q(C(F(cmp("==", call("length", qa(C(N("s")))), L(3))))), d, [d[0]])
    check(_q(C(F(cmp("==", call("length", qa(C(N("s")))), call("length", qa(C(N("zz")))))))), d, [d[2]])
    check(_q(C(F(call("match", qa(C(N("s"))), L("ab"))))), d, [d[1]])
    check(_q(C(F(call("search", qa(C(N("s"))), L("ab"))))), d, [d[0], d[1]])
    check(_q(C(F(("not", call("match", qa(C(N("s"))), L("ab")))))), d, [d[0], d[2]])
    # $ inside a nested filter still denotes the query argument
    d = {"k": 2, "a": [[1, 2, 3], [2]]}
    inner = F(cmp("==", qa(), q(C(N("k")))))
    check(_q(C(N("a")), C(F(T(at(C(inner)))))), d, [[1, 2, 3], [2]])
    check(_q(C(N("a")), C(W), C(inner)), d, [2, 2])
    # index selector on an object: documented departure
    check(_q(C(I(1))), {"1": "x", "a": "y"}, ["x"])
    check(_q(C(I(-1))), {"-1": "x"}, ["x"])
    return n
