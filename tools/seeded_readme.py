#!/usr/bin/env python3
"""Regenerate /verif/seeded/README.md from the meta.json files."""
import glob, json, os
rows = []
for p in sorted(glob.glob("/verif/seeded/*/meta.json")):
    m = json.load(open(p))
    d = os.path.basename(os.path.dirname(p))
    conf = "yes" if m["confirmed"] else ("superseded" if m.get("superseded") else "NO")
    rows.append("| %s | %s | %s | %s | %s |" % (d, m["property"], conf, ", ".join(m["caught_by"]) or ("-" if m.get("superseded") else "**none**"),
                                          m.get("needs_to_manifest", "").replace("|", "\\|")))
open("/verif/seeded/README.md", "w").write("""# Independently written property-breaking changes

Each directory holds `patch.diff` (applies to /repo's HEAD), the author's demonstration test and `meta.json`
(what it needs in order to manifest, what was run to confirm it, which checks were run against it and which
reported a VIOLATION). Written by sub-agents that saw only the property text and a scratch worktree - nothing
from /verif. Confirmed = demo passes on the clean tree, the repository's 719 tests still pass with the change,
demo fails with the change. `history` in meta.json records checks that missed a change before being strengthened. `superseded` = a later `fix:` commit in /repo
removed the code path the change relied on, so its demonstration no longer fails at HEAD (kept for the record).

| directory | property | confirmed | caught by (quick tier) | needs, in order to manifest |
|---|---|---|---|---|
""" + "\n".join(rows) + "\n")
print(len(rows), "seeded changes")
