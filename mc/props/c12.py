"""C12 - Query iterator operations behave as list slicing on the match sequence.

Engine E-HIST: every operation history up to a depth bound over the full letter
alphabet, on real Query objects rebuilt per history, in lock-step with mc.ref.rquery.
"""
from ..ref import rquery

ID = "C12"
RULE = (
    "every history (sequence of (live query, operation, count)) up to the depth bound over the complete "
    "letter alphabet, for every match-sequence length 0..Lmax; a state is a distinct (length, history); "
    "non-trivial = the history's model trace contains at least one non-empty observation or non-empty final drain; "
    "every step's observation and the final drain of every live query are compared with the list model"
)
ASSUMPTIONS = [
    "match sequences are produced by jsonpath.query('$[*]', [10..10+L-1]) (distinct values, value != index); two more "
    "sources to depth 2 (thorough: 3): the same node matched repeatedly ($[0,1,0,2,1,0] on three elements) and distinct nodes "
    "holding equal values",
    "views and plain iteration are drained completely when invoked",
    "after tee() the parent query is retired (docs: not safe to use)",
    "reference model mc/ref/rquery.py (list slicing), self-tested on every run",
]
REQUIRE = {
    "op.limit": 1, "op.head": 1, "op.first": 1, "op.skip": 1, "op.drop": 1, "op.tail": 1, "op.last": 1,
    "op.take": 1, "op.tee": 1, "op.first_one": 1, "op.one": 1, "op.last_one": 1, "op.values": 1,
    "op.locations": 1, "op.items": 1, "op.pointers": 1, "op.iter": 1, "obs.valueerror": 1,
    "obs.match.none": 1, "obs.match.some": 1, "drain.nonempty": 1, "drain.empty": 1, "live>=3": 1,
}


def selftest():
    return rquery.selftest()


def letters(L, aliases=True):
    ns = sorted({-1, 0, 1, 2, L, L + 1})
    out = []
    lim = rquery.LIMIT if aliases else ("limit",)
    skp = rquery.SKIP if aliases else ("skip",)
    tl = rquery.TAIL if aliases else ("tail",)
    for op in lim + skp + tl + ("take",):
        for n in ns:
            out.append((op, n))
    for n in (-1, 0, 1, 2, 3):
        out.append(("tee", n))
    for op in (rquery.FIRST1 if aliases else ("first_one",)) + ("last_one",):
        out.append((op, None))
    for op in (rquery.VIEWS if aliases else ("values", "pointers")) + ("iter",):
        out.append((op, None))
    return out


def bounds(tier, seed):
    if tier == "quick":
        return {"Lmax": 4, "depth_full": 3, "extra_block": "depth 4, first two letters fixed by VERIF_SEED, L=3"}
    return {"Lmax": 5, "depth_full": "4 for L<=3, 3 for L in 4..5", "depth_no_aliases": "5 (4 after a first take/tee)", "Lmax_depth5": 1}


def plan(tier, seed):
    shards = []
    if tier == "quick":
        for L in range(0, 5):
            nl = len(letters(L))
            shards.append(("hist", L, None, 0, True))
            for first in range(nl):
                shards.append(("hist", L, first, 3, True))
        for mode in ("dupnode", "dupval"):
            for L in (2, 4):
                for first in range(len(letters(L))):
                    shards.append(("hist", L, first, 2, True, mode))
        # one complete block of the thorough tier chosen by the seed (quick is a subset of thorough)
        nl = len(letters(3))
        a = seed % nl
        shards.append(("hist2", 3, a, (seed // nl) % nl, 4, True))
    else:
        for L in range(0, 6):
            nl = len(letters(L))
            shards.append(("hist", L, None, 0, True))
            for first in range(nl):
                shards.append(("hist", L, first, 4 if L <= 3 else 3, True))
        for L in range(0, 2):
            la = letters(L, False)
            for first in range(len(la)):
                # depth 5 where the first operation keeps one live query; 4 after take/tee (measured: the branching of
                # several live queries makes a depth-5 block a 15-minute shard)
                shards.append(("hist", L, first, 4 if la[first][0] in ("take", "tee") else 5, False))
        for mode in ("dupnode", "dupval"):
            for L in range(1, 6):
                for first in range(len(letters(L))):
                    shards.append(("hist", L, first, 3, True, mode))
    return shards


def _enum(state, hist, depth, L, aliases, acc_fn):
    acc_fn(hist)
    if len(hist) >= depth:
        return
    for qi in range(len(state)):
        for op, n in letters(L, aliases):
            ns, _ = rquery.step(state, qi, op, n)
            hist.append([qi, op, n])
            _enum(ns, hist, depth, L, aliases, acc_fn)
            hist.pop()


def run_shard(shard, acc):
    kind = shard[0]
    if kind == "hist":
        _, L, first, depth, aliases = shard[:5]
        mode = shard[5] if len(shard) > 5 else "plain"
        sub = "hist.d%d%s%s" % (depth, "" if aliases else ".noalias", "" if mode == "plain" else "." + mode)
        state = (tuple(range(L)),)

        def visit(hist):
            _run(sub, L, hist, acc, mode=mode)

        if first is None:
            visit([])
            return
        op, n = letters(L, aliases)[first]
        ns, _ = rquery.step(state, 0, op, n)
        _enum(ns, [[0, op, n]], depth, L, aliases, visit)
    elif kind == "hist2":
        _, L, a, b, depth, aliases = shard
        sub = "hist.d%d.block" % depth
        state = (tuple(range(L)),)
        la = letters(L, aliases)
        op, n = la[a]
        s1, _ = rquery.step(state, 0, op, n)
        if not s1:
            return
        op2, n2 = la[b]
        s2, _ = rquery.step(s1, 0, op2, n2)

        def visit(hist):
            _run(sub, L, hist, acc)

        _enum(s2, [[0, op, n], [0, op2, n2]], depth, L, aliases, visit)


DUP_PATTERN = [0, 1, 0, 2, 1, 0]


def source(mode, L):
    """-> (document, query text, [(index in the document, value)] per position of the match sequence)."""
    if mode == "dupnode":
        # the same node matched more than once (a repeated selector): positions differ, path and value coincide
        idx = DUP_PATTERN[:L]
        doc = [10, 11, 12]
        return doc, "$[%s]" % ",".join(str(i) for i in idx) if idx else "$[5]", [(i, doc[i]) for i in idx]
    if mode == "dupval":
        # distinct nodes holding equal values
        doc = [10 + (i % 2) for i in range(L)]
        return doc, "$[*]", [(i, doc[i]) for i in range(L)]
    doc = [10 + i for i in range(L)]
    return doc, "$[*]", [(i, doc[i]) for i in range(L)]


def _expected_view(op, elems, seq):
    if op in ("values", "iter"):
        return [seq[e][1] for e in elems]
    if op == "locations":
        return ["$[%d]" % seq[e][0] for e in elems]
    if op == "items":
        return [("$[%d]" % seq[e][0], seq[e][1]) for e in elems]
    return ["/%d" % seq[e][0] for e in elems]


def _run(sub, L, hist, acc, record=True, mode="plain"):
    """Execute one history on fresh real objects in lock-step with the model."""
    import jsonpath
    from jsonpath import Query

    doc, qtext, seq = source(mode, L)
    live = [jsonpath.query(qtext, doc)]
    state = (tuple(range(L)),)
    nontrivial = False
    trace = []
    bad = None
    for step_i, (qi, op, n) in enumerate(hist):
        state, exp = rquery.step(state, qi, op, n)
        q = live[qi]
        try:
            if op in rquery.COUNTED:
                r = getattr(q, op)(n)
                if op == "take":
                    ok = isinstance(r, Query) and r is not q
                    live.append(r)
                    obs = ("new",) if ok else ("bad-new", repr(r))
                else:
                    obs = ("self",) if r is q else ("not-self", repr(r))
            elif op == "tee":
                r = q.tee(n)
                del live[qi]
                live.extend(r)
                obs = ("tee", len(r)) if all(isinstance(x, Query) for x in r) else ("bad-tee", repr(r))
            elif op in rquery.FIRST1 or op == "last_one":
                m = getattr(q, op)()
                if m is None:
                    obs = ("match", None)
                else:
                    obs = ("match", (m.path, m.obj))
            else:
                if op == "iter":
                    got = [m.obj for m in q]
                elif op == "pointers":
                    got = [str(p) for p in q.pointers()]
                else:
                    got = list(getattr(q, op)())
                obs = ("list", op, got)
        except ValueError:
            obs = ("valueerror",)
        except Exception as e:  # noqa: BLE001
            obs = ("exc", type(e).__name__, str(e)[:80])
        if exp[0] == "list":
            expv = ("list", op, _expected_view(op, exp[2], seq))
            if exp[2]:
                nontrivial = True
        elif exp[0] == "match" and exp[1] is not None:
            expv = ("match", ("$[%d]" % seq[exp[1]][0], seq[exp[1]][1]))
            nontrivial = True
        else:
            expv = exp
        trace.append(obs[0])
        if record:
            acc.count("op." + op)
            if obs[0] == "valueerror":
                acc.count("obs.valueerror")
            if obs[0] == "match":
                acc.count("obs.match.none" if obs[1] is None else "obs.match.some")
        if obs != expv:
            bad = ("step%d" % step_i, expv, obs)
            break
    if bad is None:
        if len(live) != len(state):
            bad = ("live-count", len(state), len(live))
        else:
            if record and len(live) >= 3:
                acc.count("live>=3")
            for i, q in enumerate(live):
                try:
                    got = [(m.path, m.obj) for m in q]
                except Exception as e:  # noqa: BLE001
                    got = ("exc", type(e).__name__)
                exp = [("$[%d]" % seq[j][0], seq[j][1]) for j in state[i]]
                if exp:
                    nontrivial = True
                if record:
                    acc.count("drain.nonempty" if exp else "drain.empty")
                if got != exp:
                    bad = ("drain%d" % i, exp, got)
                    break
    case = {"L": L, "history": [list(h) for h in hist], "mode": mode}
    if record:
        acc.case(sub, (mode, L, tuple(map(tuple, hist))), outcome=(tuple(trace), tuple(map(len, state))),
                 nontrivial=nontrivial, trans=len(hist) + len(state))
        if acc.evals % 5000 == 1:
            acc.sample(sub, case)
    if bad is not None:
        acc.violation(sub.split(".")[0], "model-mismatch", case, expected=bad[1], observed=bad[2], note=bad[0])


def check_case(sub, case, acc):
    _run(sub, case["L"], case["history"], acc, record=False, mode=case.get("mode", "plain"))


def shrink(sub, case):
    L, hist = case["L"], case["history"]
    # drop one operation (indices of later ops must stay valid: keep only if replayable on the model)
    for i in range(len(hist)):
        cand = hist[:i] + hist[i + 1:]
        if _valid(L, cand):
            yield {"L": L, "history": cand, "mode": case.get("mode", "plain")}
    if L > 0:
        cand = [[qi, op, (min(n, L) if isinstance(n, int) else n)] for qi, op, n in hist]
        if _valid(L - 1, cand):
            yield {"L": L - 1, "history": cand, "mode": case.get("mode", "plain")}
    for i, (qi, op, n) in enumerate(hist):
        if isinstance(n, int) and n > 0:
            yield {"L": L, "history": hist[:i] + [[qi, op, n - 1]] + hist[i + 1:], "mode": case.get("mode", "plain")}


def _valid(L, hist):
    state = (tuple(range(L)),)
    for qi, op, n in hist:
        if qi >= len(state):
            return False
        state, _ = rquery.step(state, qi, op, n)
    return True


def signature(sub, case, v):
    ops = [h[1] for h in case["history"]]
    return "C12.%s.%s" % (v.get("note") or "x", "-".join(ops) or "empty")
