#!/usr/bin/env python3
"""tools/wave_setup.py [IDs...]: scratch worktrees /tmp/wt/<ID> of /repo's HEAD, each with PROPERTY.txt (the property's
text and the list of already filed changes - nothing else from /verif) for an independent author of seeded changes."""
import glob, json, os, subprocess, sys
props = {}
for l in open('/verif/properties.jsonl'):
    d = json.loads(l); props[d['id']] = d
ids = sys.argv[1:] or sorted(props)
known = {}
for p in sorted(glob.glob('/verif/seeded/*/meta.json')):
    m = json.load(open(p)); d = os.path.basename(os.path.dirname(p))
    known.setdefault(m['property'], []).append("- " + d.split('-', 1)[1].replace('-', ' ') + " (needs: " + m['needs_to_manifest'] + ")")
os.makedirs('/tmp/wt', exist_ok=True)
for pid in ids:
    d = props[pid]
    wt = '/tmp/wt/' + pid
    if not os.path.isdir(wt):
        subprocess.run(f"git -C /repo worktree add -q --detach {wt} HEAD", shell=True, check=True)
    txt = f"""PROPERTY {pid}: {d['title']}

Statement: {d['statement']}

Quantified over: {d['quantifier']['text']}

Observed through: {', '.join(d['anchors'].get('observe_at') or [])}

Source files mostly involved: {', '.join(d['anchors']['files'])}

Property-breaking changes that are ALREADY KNOWN (do not repeat these or close variants of them; find different ones):
""" + "\n".join(known.get(pid, [])) + "\n"
    open(wt + '/PROPERTY.txt', 'w').write(txt)
    print(pid, len(known.get(pid, [])), "known")
