"""Documents and queries shared by C03 (match locations) and C20 (match -> pointer -> patch)."""
import itertools

from ..ref.rpath import C, D, F, I, N, Q, S, W
from .alpha import LOOKALIKES, strings_upto

INDEXISH = ["0", "1", "2", "10", "-1", "-0", "00", "01", "+1", " 1", "1 ", "1_0", "１", "1.0", "1e0", "-", "#0", "#a",
            "~a", "~0", "~1", "~01",
            # digits-only names beyond the index limit of pointer texts (legal member names; a match's pointer holds them)
            "9007199254740992", "-9007199254740992", "123456789012345678901234567890"]


def names(n=2):
    seen = set()
    out = []
    for t in strings_upto(n) + LOOKALIKES + INDEXISH:
        if t not in seen:
            seen.add(t)
            out.append(t)
    return out


def name_docs(nm):
    """Documents using nm as a member name; leaves are unique list objects so identity is meaningful."""
    other = "zz" if nm != "zz" else "yy"
    k = itertools.count(1)

    def leaf():
        return ["L%d" % next(k)]

    return [
        {nm: leaf()},
        {nm: {nm: leaf(), other: leaf()}, other: {nm: leaf()}},
        [{nm: leaf()}, {nm: leaf()}],
        {nm: [leaf(), leaf(), leaf()]},
        {other: leaf(), nm: "str", "n": 0},
        # colliding flavour: equal values at different places
        {nm: [0], other: [0], "x": {nm: [0]}},
        # strings between the containers of an array (descent must count them), deeper than the array is long for slices
        ["s", {nm: leaf()}, "t", [leaf(), "u", {nm: leaf()}]],
        # a member whose value is its own name without the first character (what the '~name' / '#name' pointer
        # extensions would produce), and one whose value is its own name
        {nm: nm[1:], other: nm, "w": {nm: nm[1:]}},
        # equal elements inside one array (distinct objects, and primitives that compare equal across types): a location
        # found by value instead of by position names the first of them
        {nm: [[0], [0], 1, True, 1.0, [0], {nm: 1}, {nm: 1}]},
    ]


def name_queries(nm):
    other = "zz" if nm != "zz" else "yy"
    at = Q(root="@")
    return [
        Q(D(W)), Q(C(W)), Q(C(W), C(W)), Q(D(I(-1))), Q(D(S(None, None, -1))), Q(D(S(1, None, -2))),
        Q(C(F(("test", at)))), Q(D(F(("test", at)))), Q(C(N(nm))), Q(D(N(nm))), Q(C(N(nm)), C(N(nm))),
        Q(C(N(nm)), C(N(other))), Q(C(W), C(I(-1))), Q(C(N(nm), N(other))), Q(D(I(0), N(nm))), Q(),
        Q(C(N(nm)), C(S(0, None, None))), Q(C(I(0)), C(N(nm))), Q(C(I(1))), Q(C(W), C(I(1), I(-2))),
        # slices whose bounds lie outside the array on either side
        Q(D(S(-9, None, None))), Q(D(S(-5, 2, None))), Q(D(S(9, None, -1))), Q(D(S(None, -9, -1))), Q(D(S(1, 9, 2))),
        # a filter applied directly to whatever the children are - strings and numbers have no children to select
        Q(C(W), C(F(("test", at)))),
    ]


def index_docs():
    """Objects with index-like keys next to arrays (index selector on objects, digits-only names)."""
    k = itertools.count(1)

    def leaf():
        return ["L%d" % next(k)]

    return [
        {"0": leaf(), "1": leaf(), "-1": leaf(), "a": [leaf(), leaf()]},
        [{"1": leaf(), "01": leaf()}, [leaf(), [leaf()]]],
        {"a": {"1": {"1": leaf()}}, "1": [leaf(), {"0": leaf()}]},
        # members whose names are another member's name behind the non-standard '~' / '#' pointer prefixes
        {"~a": leaf(), "a": leaf(), "#a": leaf(), "~0": {"x": leaf()}, "0": {"x": leaf()}},
        {"#": leaf(), "~": leaf(), "": leaf(), "#1": [leaf()], "1": [leaf()], "~~a": leaf()},
        {"#a": "a", "~": "", "#1": "1", "~0": "0", "#": "", "~b": "b"},
        ["s", [leaf(), "t", [leaf()]], "u", {"0": "v", "1": [leaf()]}],
        [[0], [0], {"1": [0]}, {"1": [0]}, 0, False, 0.0, [0]],
    ]


def index_queries():
    at = Q(root="@")
    return [Q(C(I(1))), Q(C(I(-1))), Q(C(I(0))), Q(D(I(1))), Q(D(I(-1))), Q(C(W), C(I(1))), Q(D(W)),
            Q(C(N("a")), C(I(1))), Q(C(I(1)), C(I(1))), Q(D(I(0), I(1))), Q(D(F(("test", at)))),
            Q(C(N("1")), C(I(-1)), C(I(0))), Q(D(S(None, None, -1))), Q(D(S(-9, None, None))), Q(D(S(-5, 2, None))),
            Q(D(S(9, None, -1))), Q(D(S(None, -9, -2)))]
