#!/bin/bash
# tools/runall.sh [tier] [seed]: run every registered check once; print one line per check.
TIER="${1:-quick}"; export VERIF_SEED="${2:-0}"
cd /verif
for id in $(python3 -c "import json;print(' '.join(c['property_id'] for c in json.load(open('MANIFEST.json'))['checks']))"); do
  s=$(date +%s.%N)
  out=$(./check $id $TIER 2>&1); rc=$?
  e=$(date +%s.%N)
  printf "%s rc=%d %.1fs %s\n" $id $rc $(echo "$e - $s" | bc) "$(echo "$out" | grep -cE '^VIOLATION|HARNESS|KNOWN') alarms"
done
