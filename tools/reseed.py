#!/usr/bin/env python3
"""tools/reseed.py [PROP-slug ...]

Re-confirm every seeded change under /verif/seeded against /repo's HEAD, in one scratch worktree (outside /repo and
/verif, removed at the end): the patch must still apply, the demo must pass without it and fail with it, the
repository's suite must still pass with it, and the checks that caught it before must still report it.
meta.json keeps its 'history' and gains 'base_commit'.  Prints one line per change; exit 1 if any is no longer caught.
"""
import glob, json, os, shutil, subprocess, sys, tempfile

SEEDED = "/verif/seeded"


def sh(cmd, cwd=None):
    r = subprocess.run(cmd, shell=True, cwd=cwd, capture_output=True, text=True)
    return r.returncode, r.stdout + r.stderr


only = set(sys.argv[1:])
head = sh("git rev-parse --short HEAD", "/repo")[1].strip()
scratch = tempfile.mkdtemp(prefix="reseed-", dir="/tmp")
wt = os.path.join(scratch, "wt")
rc, out = sh(f"git worktree add -q --detach {wt} HEAD", "/repo")
assert rc == 0, out
bad = 0
try:
    for d in sorted(glob.glob(SEEDED + "/*/")):
        name = os.path.basename(d.rstrip("/"))
        if only and name not in only:
            continue
        meta = json.load(open(d + "meta.json"))
        prop, slug = meta["property"], meta["slug"]
        demo = [f for f in os.listdir(d) if f.endswith(".py")][0]
        shutil.copy(d + "patch.diff", os.path.join(wt, "mutant.diff"))
        shutil.copy(d + demo, os.path.join(wt, demo))
        checks = list(dict.fromkeys([prop] + [c for c in meta.get("caught_by", [])]))
        if not meta.get("checks_run", {}).get(prop):
            checks = list(dict.fromkeys(meta.get("caught_by", []) or [prop]))
        keep = {k: meta[k] for k in ("history", "superseded") if k in meta}
        rc, out = sh(f"/verif/tools/seed.py {prop} {wt} mutant.diff {demo} '{slug}' --checks \"{' '.join(checks)}\" "
                     f"--needs \"{meta.get('needs_to_manifest', '').replace(chr(34), chr(39))}\"")
        new = json.load(open(d + "meta.json"))
        new.update(keep)
        new["base_commit"] = head
        json.dump(new, open(d + "meta.json", "w"), indent=1)
        os.remove(os.path.join(wt, "mutant.diff"))
        os.remove(os.path.join(wt, demo))
        was = set(meta.get("caught_by", []))
        now = set(new.get("caught_by", []))
        state = "ok" if new["confirmed"] and now and was <= now else "REGRESSION"
        if state != "ok":
            bad += 1
        print(name, state, "confirmed=%s" % new["confirmed"], "caught_by=%s" % sorted(now), "before=%s" % sorted(was), flush=True)
finally:
    sh(f"git worktree remove --force {wt}", "/repo")
    sh("git worktree prune", "/repo")
    shutil.rmtree(scratch, ignore_errors=True)
sys.exit(1 if bad else 0)
