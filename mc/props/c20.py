"""C20 - match -> pointer -> patch edits exactly the matched node."""
from ..gen import matchspace, spell
from ..jsonutil import ckey, deep_copy, is_json, jeq
from ..ref import rpatch, rpath, rptr
from .c03 import _beyond_limit
from .common import chunks, shrink_doc, tup

ID = "C20"
RULE = (
    "C03's names, documents and queries; for every match m of every query, the operations test(m.pointer(), m.obj), "
    "replace(m.pointer(), fresh value) and remove(m.pointer()) are applied by a real JSONPatch to a deep copy: test must "
    "pass, replace/remove must equal the reference patch applied at the match's location (typed JSON equality, str keys "
    "only), and the original document must be unchanged. Root match: replace only. "
    "state = distinct (document, query, match, op); non-trivial = the match is not the root"
)
ASSUMPTIONS = [
    "reference: mc/ref/rpath.py for expected locations, mc/ref/rpatch.py for the expected document",
    "pointer given to the patch both as the JSONPointer object and as its string form (no backslash: default decoder; "
    "with backslash: JSONPatch(unicode_escape=False))",
]
FRESH = {"fresh": [1, True]}


def selftest():
    return rpatch.selftest() + rptr.selftest()


def bounds(tier, seed):
    return {"names": len(matchspace.names(2)), "name_len3": tier == "thorough"}


def plan(tier, seed):
    shards = []
    ns = matchspace.names(2)
    for part in chunks(list(range(len(ns))), 10):
        shards.append(("N", part[0], part[-1] + 1))
    shards.append(("IDX",))
    if tier == "thorough":
        from ..gen.alpha import strings_upto

        n3 = len(strings_upto(3))
        for lo in range(0, n3, 250):
            shards.append(("N3", lo, min(n3, lo + 250)))
    return shards


def run_shard(shard, acc):
    if shard[0] == "N":
        for nm in matchspace.names(2)[shard[1]:shard[2]]:
            qs = matchspace.name_queries(nm)
            for doc in matchspace.name_docs(nm):
                for q in qs:
                    _check("N", doc, q, acc)
    elif shard[0] == "N3":
        from ..gen.alpha import strings_upto

        for nm in strings_upto(3)[shard[1]:shard[2]]:
            if len(nm) < 3:
                continue
            qs = matchspace.name_queries(nm)
            for doc in matchspace.name_docs(nm)[:2]:
                for q in (qs[0], qs[10]):
                    _check("N", doc, q, acc)
    else:
        for doc in matchspace.index_docs():
            for q in matchspace.index_queries():
                _check("IDX", doc, q, acc)


def _check(sub, doc, q, acc, record=True, only_loc=None):
    import jsonpath
    from jsonpath import JSONPatch
    from jsonpath.exceptions import JSONPatchError

    text = spell.text(q)
    snapshot = deep_copy(doc)
    try:
        matches = list(jsonpath.finditer(text, doc))
    except Exception as e:  # noqa: BLE001
        acc.violation(sub, "query-failed", {"doc": doc, "q": q, "text": text}, expected="evaluates", observed="%s: %s" % (type(e).__name__, e))
        return
    exp_nodes = rpath.nodelist(q, snapshot)
    if len(exp_nodes) != len(matches):
        acc.violation(sub, "match-count", {"doc": snapshot, "q": q, "text": text}, expected=len(exp_nodes), observed=len(matches))
        return
    for m, (loc, _val) in zip(matches, exp_nodes):
        # the location is the reference evaluator's, not the implementation's own parts: the property says the patch
        # "behaves as if the match's location had been addressed directly"
        if only_loc is not None and list(loc) != only_loc:
            continue
        toks = rptr.loc_tokens(loc)
        ops = [("replace", lambda p: JSONPatch().replace(p, deep_copy(FRESH)), lambda d: rpatch.replace(d, toks, FRESH))]
        if loc:
            ops.append(("test", lambda p: JSONPatch().test(p, deep_copy(m.obj)), lambda d: deep_copy(d)))
            ops.append(("remove", lambda p: JSONPatch().remove(p), lambda d: rpatch.remove(d, toks)))
        for name, build, model in ops:
            bad = None
            exp = model(snapshot)
            for form in ("object", "text"):
                if form == "text" and _beyond_limit(loc):
                    # a pointer *text* with a digits-only token beyond the index limit is refused when parsed (documented);
                    # the match's own pointer object carries such a name
                    continue
                try:
                    ptr = m.pointer()
                    if form == "object":
                        patch = build(ptr)
                    else:
                        ptext = str(ptr)
                        if "\\" in ptext:
                            patch = JSONPatch(unicode_escape=False)
                            patch = getattr(patch, name)(ptext, *( [deep_copy(FRESH)] if name == "replace" else [deep_copy(m.obj)] if name == "test" else []))
                        else:
                            patch = build(ptext)
                    work = deep_copy(doc)
                    got = patch.apply(work)
                    if not is_json(got) or not jeq(got, exp):
                        bad = ("wrong-document." + name, exp, got)
                except JSONPatchError as e:
                    bad = ("refused." + name, exp, "%s: %s" % (type(e).__name__, e))
                except Exception as e:  # noqa: BLE001
                    bad = ("exception." + name, exp, "%s: %s" % (type(e).__name__, e))
                if bad:
                    bad = (bad[0] + "." + form, bad[1], bad[2])
                    break
            if bad is None and not jeq(doc, snapshot):
                bad = ("original-modified." + name, snapshot, doc)
            if record:
                acc.case(sub, (ckey(snapshot), text, loc, name), outcome=ckey(exp), nontrivial=bool(loc), trans=2)
                acc.count("op." + name)
                if acc.evals % 4000 == 1:
                    acc.sample(sub, {"doc": snapshot, "query": text, "pointer": str(m.pointer()), "op": name})
            if bad:
                acc.violation(sub, bad[0], {"doc": snapshot, "q": q, "text": text, "location": list(loc)},
                              expected=bad[1], observed=bad[2])
                return


REQUIRE = {"op.replace": 5000, "op.test": 5000, "op.remove": 5000}


def check_case(sub, case, acc):
    _check(sub, case["doc"], tup(case["q"]), acc, record=False, only_loc=case.get("location"))


def shrink(sub, case):
    q = tup(case["q"])
    for d2 in shrink_doc(case["doc"]):
        if isinstance(d2, (list, dict)):
            yield {"doc": d2, "q": q, "text": case.get("text")}


def signature(sub, case, v):
    from .c04 import _tok_class

    loc = case.get("location") or []
    names = sorted({_tok_class(t) for t in loc if isinstance(t, str)} - {"a"})
    kinds = ["i" if isinstance(t, int) else "k" for t in loc]
    return "C20.%s.names(%s).loc(%s)" % (v["kind"], ",".join(names), "".join(kinds))
