#!/bin/bash
# tools/cov.sh [tier] [props...]  - audit aid, not a check: which lines/branches of /repo/jsonpath do the explorations execute?
# Data goes to a scratch directory outside /repo and /verif and is removed at the end; the report is printed.
TIER=${1:-quick}; shift
PROPS=${@:-C01 C02 C03 C04 C05 C06 C07 C08 C09 C10 C11 C12 C13 C14 C15 C16 C17 C18 C19 C20}
D=$(mktemp -d /tmp/verifcov.XXXXXX)
for p in $PROPS; do
  VERIF_COV=$D/$p.cov /verif/check $p $TIER >/dev/null 2>&1; echo "$p rc=$?" >&2
done
cd $D
for p in $PROPS; do
  /venv/bin/python -m coverage combine --keep --data-file=$D/only-$p $D/$p.cov.* >/dev/null 2>&1
done
/venv/bin/python -m coverage combine --data-file=$D/all $D/*.cov.* >/dev/null 2>&1
/venv/bin/python -m coverage report --data-file=$D/all --include='/repo/jsonpath/*' -m --skip-empty 2>&1
if [ -n "$COV_KEEP" ]; then echo "data kept in $D" >&2; else rm -rf $D; fi
