"""C08 - the async API returns exactly what the sync API returns.

(EQ) E-PROD: every (query, document) of the C01 / C02 / C13 / C11 generators, on plain
documents and on the same documents rebuilt from Mapping/Sequence classes with an
asynchronous item getter; (SCH) E-SCHED: several evaluations awaited concurrently on our
own trampoline, getters suspending at every item access, every schedule with a bounded
number of preemptions.
"""
import itertools

from .. import sched
from ..gen import spell
from ..jsonutil import ckey, jeq
from ..ref.rpath import C, D, F, I, N, Q, S, W
from . import c01, c02, c11, c13
from .common import chunks

ID = "C08"
RULE = (
    "EQ: query texts of C01 (full single-segment selector alphabet, 12x12 lists and pipelines), C02 (every 2nd atom, every 3rd "
    "tree), C13 (all constructs) and C11 (simple + 1-2 operator compound) x their document sets (strings and scalars reached by "
    "wildcard, slice, descendant and filter selectors included) x {plain document, Mapping/Sequence proxies with "
    "__getitem_async__}: findall_async, finditer_async (compiled and environment level) must give the same sequence of "
    "(value, path, parts) as finditer, or raise the same error class; the same for documents given as JSON text, StringIO and "
    "BytesIO (compound queries on container documents; C11's TXT queries on documents that are not containers). SCH: 8 harnesses of 2-3 tasks (shared compiled query on "
    "documents that differ in the cached sub-expression, same document, different queries, compound queries, finditer_async "
    "consumers, filter context), every schedule with <=1 (thorough <=3) preemptions; each task must return its sync result. "
    "state = distinct (query, document, form) or schedule; non-trivial = non-empty sync result"
)
ASSUMPTIONS = [
    "the event loop is our own trampoline: suspension points are exactly the awaits of proxies' __getitem_async__",
    "sync results are the reference (their conformance is C01/C02/C13's subject)",
    "exception equality = same exception class",
]


def selftest():
    async def t():
        await sched.Yield()
        return 5

    assert sched.run_coro(t()) == 5
    st = sched.explore(lambda s: sched.execute_tasks(lambda: [t(), t()], s), 1, lambda s, r: None)
    assert st["schedules"] == 4, st
    return 2


def eq_queries(tier):
    out = []
    for s in c01.sel_alphabet_A()[:: (4 if tier == "quick" else 1)]:
        for k in ("child", "desc"):
            out.append(("c01", spell.text(Q((k, [s])))))
    for a, b in itertools.product(c01.RED12, repeat=2):
        out.append(("c01", spell.text(Q(C(a, b)))))
        out.append(("c01", spell.text(Q(C(a), D(b)))))
        out.append(("c01", spell.text(Q(D(a), C(b)))))
    for e in c02.all_atoms()[:: (6 if tier == "quick" else 2)]:
        out.append(("c02", spell.text(Q(C(N("arr")), C(F(e))))))
    for e in c02.trees("quick")[:: (9 if tier == "quick" else 3)]:
        out.append(("c02", spell.text(Q(C(N("arr")), C(F(e))))))
    o = spell.Opts(full_strings=False)
    for _tag, q in c13.constructs():
        out.append(("c13", spell.text(q, o)))
    qs11 = c11.queries("quick")
    for parts in qs11[: 8 + 128]:
        out.append(("c11", c11.text_of(parts)))
    # two-operator compound queries (every 5th in quick, all in thorough): late binding needs >= 2 intersections
    for parts in qs11[8 + 128: 8 + 128 + 2048][:: (5 if tier == "quick" else 1)]:
        out.append(("c11", c11.text_of(parts)))
    # documents given as JSON text and as file objects: compound queries on container documents (a file can be read
    # once), and the queries of C11's TXT space on documents that are not containers
    for parts in qs11[8: 8 + 128][:: (2 if tier == "quick" else 1)]:
        out.append(("file", c11.text_of(parts)))
    for parts in c11.txt_queries(tier):
        out.append(("txt", c11.text_of(parts)))
    # member names that need escaping in normalized paths, under every selector kind
    from ..gen import matchspace
    for nm in NASTY_NAMES:
        for q in matchspace.name_queries(nm):
            out.append(("c03:" + nm, spell.text(q)))
    return out


NASTY_NAMES = ["'", "\\", '"', "\n", "~", "/", "é", "𝄞", "a b", "", "it's", "a\\'b", "\t\u0001"]


def eq_docs(family):
    if family.startswith("c03:"):
        from ..gen import matchspace
        return matchspace.name_docs(family[4:])
    if family == "c01":
        return c01.docs_A("quick")[::3] + c01.EXTRA_DOCS + c01.SEP_DOCS
    if family == "c02":
        return c02.filter_docs()
    if family == "c13":
        return c13.docs()
    return c11.docs("quick")[::4] + c11.NESTED


CONTEXT = {"lim": 2, "flag": True, "xs": [2, 3], "name": "a", "o": {"lim": 3}}


def harnesses():
    """(name, [(query text, document, filter_context, mode)])  mode: findall | finditer"""
    d1 = {"k": 1, "arr": [1, 2, {"a": 1}, [1]], "a": {"a": 1}, "b": [2, 1]}
    d2 = {"k": 2, "arr": [1, 2, {"a": 2}, [2]], "a": {"a": 2}, "b": [1, 2]}
    q = "$.arr[?@ == $.k || @.a == $.k || @[0] == $.k]"
    return [
        ("shared-query-cached-root", [(q, d1, None, "findall"), (q, d2, None, "findall")]),
        ("shared-query-three-tasks", [(q, d1, None, "findall"), (q, d2, None, "finditer"), (q, d1, None, "findall")]),
        ("same-doc", [("$..a", d1, None, "findall"), ("$..a", d1, None, "finditer")]),
        ("different-queries", [("$.a.a", d1, None, "findall"), ("$.arr[?@.a]", d2, None, "findall"), ("$.b[::-1]", d1, None, "finditer")]),
        ("compound", [("$.a.a | $.b[0] & $.arr[*]", d1, None, "findall"), ("$.a.a | $.b[0] & $.arr[*]", d2, None, "finditer")]),
        ("context", [("$.arr[?@ > _.lim || @.a == _.lim]", d1, {"lim": 1}, "findall"), ("$.arr[?@ > _.lim || @.a == _.lim]", d2, {"lim": 1}, "findall")]),
        ("nested-filter", [("$[?@[?@ == $.k]]", d1, None, "findall"), ("$[?@[?@ == $.k]]", d2, None, "findall")]),
        ("count-cached", [("$.arr[?count($.arr[?@ == $.k]) == 1]", d1, None, "findall"), ("$.arr[?count($.arr[?@ == $.k]) == 1]", d2, None, "finditer")]),
    ]


def bounds(tier, seed):
    return {"eq_queries": len(eq_queries(tier)), "harnesses": len(harnesses()), "preemption_bound": 1 if tier == "quick" else 3}


def plan(tier, seed):
    n = len(eq_queries(tier))
    shards = [("EQ", tier, lo, min(n, lo + 60)) for lo in range(0, n, 60)]
    for hi in range(len(harnesses())):
        shards.append(("SCH", hi, 1 if tier == "quick" else 3))
    if tier == "quick":
        shards.append(("SCH", seed % len(harnesses()), 2))
    return shards


def _sync(p, doc, fc):
    from jsonpath import JSONPathError

    try:
        return ("ok", [(ckey(sched.unwrap(m.obj)), m.path, tuple(m.parts)) for m in p.finditer(doc, filter_context=fc)])
    except JSONPathError as e:
        return ("error", type(e).__name__)


def _async_iter(p, doc, fc):
    from jsonpath import JSONPathError

    try:
        it = sched.run_coro(p.finditer_async(doc, filter_context=fc))
        return ("ok", [(ckey(sched.unwrap(m.obj)), m.path, tuple(m.parts)) for m in sched.drain_async(it)])
    except JSONPathError as e:
        return ("error", type(e).__name__)
    except Exception as e:  # noqa: BLE001
        return ("exception", "%s: %s" % (type(e).__name__, e))


def _async_all(p, doc, fc):
    from jsonpath import JSONPathError

    try:
        return ("ok", [ckey(sched.unwrap(v)) for v in sched.run_coro(p.findall_async(doc, filter_context=fc))])
    except JSONPathError as e:
        return ("error", type(e).__name__)
    except Exception as e:  # noqa: BLE001
        return ("exception", "%s: %s" % (type(e).__name__, e))


def run_shard(shard, acc):
    import jsonpath

    if shard[0] == "EQ":
        _, tier, lo, hi = shard
        for family, text in eq_queries(tier)[lo:hi]:
            _eq(family, text, acc)
    else:
        _, hi, bound = shard
        _schedules(hi, bound, acc)


def _eq_forms(family, text, acc, record=True, only_doc=None):
    """The document as JSON text, StringIO and BytesIO: async entry points against the sync ones on the same input."""
    import io
    import json

    import jsonpath

    try:
        p = jsonpath.compile(text)
    except Exception:  # noqa: BLE001
        return
    texts = list(c11.TXT_DOCS) if family == "txt" else [json.dumps(d) for d in c11.NESTED]
    for di, t in enumerate(texts):
        if only_doc is not None and di != only_doc:
            continue
        ref = _sync(p, t, None)
        bad = None
        for form, mk in (("text", lambda: t), ("StringIO", lambda: io.StringIO(t)), ("BytesIO", lambda: io.BytesIO(t.encode()))):
            a = _async_iter(p, mk(), None)
            if a != ref:
                bad = ("finditer_async(%s)" % form, a)
                break
            b = _async_all(p, mk(), None)
            want = ("ok", [x[0] for x in ref[1]]) if ref[0] == "ok" else ref
            if b != want:
                bad = ("findall_async(%s)" % form, b)
                break
            try:
                c = ("ok", [ckey(v) for v in sched.run_coro(jsonpath.findall_async(text, mk()))])
            except jsonpath.JSONPathError as e:
                c = ("error", type(e).__name__)
            except Exception as e:  # noqa: BLE001
                c = ("exception", "%s: %s" % (type(e).__name__, e))
            if c != want:
                bad = ("env.findall_async(%s)" % form, c)
                break
        if record:
            acc.case("EQ", (text, di, family), outcome=ref if ref[0] != "ok" else tuple(x[0] for x in ref[1]),
                     nontrivial=ref[0] == "ok" and bool(ref[1]), trans=9)
            acc.count("EQ.%s.forms" % family)
        if bad:
            acc.violation("EQ", "differs." + bad[0], {"family": family, "query": text, "doc": t, "di": di, "form": "forms"},
                          expected=_show(ref), observed=_show(bad[1]))
            return


def _eq(family, text, acc, record=True, only_doc=None):
    import jsonpath

    if family in ("file", "txt"):
        _eq_forms(family, text, acc, record, only_doc)
        return
    try:
        p = jsonpath.compile(text)
    except Exception:  # noqa: BLE001  (other properties' business)
        return
    fc = CONTEXT if family == "c13" else None
    for di, doc in enumerate(eq_docs(family)):
        if only_doc is not None and di != only_doc:
            continue
        for form in ("plain", "proxy"):
            d = doc if form == "plain" else sched.wrap(doc)
            if form == "proxy" and not isinstance(doc, (list, dict)):
                continue
            ref = _sync(p, d, fc)
            bad = None
            a = _async_iter(p, d, fc)
            if a != ref:
                bad = ("finditer_async", a)
            else:
                b = _async_all(p, d, fc)
                want = ("ok", [x[0] for x in ref[1]]) if ref[0] == "ok" else ref
                if b != want:
                    bad = ("findall_async", b)
                elif di % 4 == 0:
                    try:
                        c = ("ok", [ckey(sched.unwrap(v)) for v in sched.run_coro(jsonpath.findall_async(text, d, filter_context=fc))])
                    except jsonpath.JSONPathError as e:
                        c = ("error", type(e).__name__)
                    except Exception as e:  # noqa: BLE001
                        c = ("exception", "%s: %s" % (type(e).__name__, e))
                    if c != want:
                        bad = ("env.findall_async", c)
            if record:
                acc.case("EQ", (text, di, form), outcome=ref if ref[0] != "ok" else tuple(x[0] for x in ref[1]),
                         nontrivial=ref[0] == "ok" and bool(ref[1]), trans=3)
                acc.count("EQ.%s.%s" % (family.split(":")[0], form))
                if ref[0] == "error":
                    acc.count("EQ.sync-error")
                if acc.evals % 3000 == 1:
                    acc.sample("EQ", {"query": text, "doc": doc, "form": form})
            if bad:
                acc.violation("EQ", "differs." + bad[0], {"family": family, "query": text, "doc": doc, "di": di, "form": form},
                              expected=_show(ref), observed=_show(bad[1]))
                return


def _show(r):
    if r[0] == "ok":
        return ["ok", [x[1] if isinstance(x, tuple) and len(x) == 3 and isinstance(x[1], str) else repr(x)[:60] for x in r[1]][:12]]
    return list(r)


def _schedules(hi, bound, acc, record=True, only_schedule=None):
    import jsonpath

    name, tasks = harnesses()[hi]
    expected = []
    for text, doc, fc, mode in tasks:
        # reference: a fresh compile evaluated synchronously, once, on a fresh proxy document
        expected.append(_sync(jsonpath.JSONPathEnvironment().compile(text), sched.wrap(doc), fc))

    def make():
        # rebuilt per execution (independent executions, exact prefix replay); shared between the tasks of one execution
        env = jsonpath.JSONPathEnvironment()
        compiled = {}
        docs = []
        for text, doc, fc, mode in tasks:
            if text not in compiled:
                compiled[text] = env.compile(text)
            docs.append(sched.wrap(doc))
        coros = []
        for (text, doc, fc, mode), d in zip(tasks, docs):
            p = compiled[text]
            if mode == "findall":
                async def t(p=p, d=d, fc=fc):
                    return [ckey(sched.unwrap(v)) for v in await p.findall_async(d, filter_context=fc)]
            else:
                async def t(p=p, d=d, fc=fc):
                    out = []
                    async for m in await p.finditer_async(d, filter_context=fc):
                        out.append(ckey(sched.unwrap(m.obj)))
                    return out
            coros.append(t())
        return coros

    want = [("ok", [x[0] for x in e[1]]) if e[0] == "ok" else ("exc", e[1]) for e in expected]
    outcomes = set()

    def on_result(s, res):
        got = [(r[0], r[1]) if r[0] == "ok" else (r[0], r[1]) for r in res]
        outcomes.add(repr(got))
        if record:
            acc.case("SCH", (hi, tuple(s.choices())), outcome=repr(got)[:80], nontrivial=s.preemptions() > 0, trans=len(s.points))
            acc.count("SCH.schedules")
            acc.count("SCH.preemptions=%d" % s.preemptions())
            if acc.evals % 300 == 1:
                acc.sample("SCH", {"harness": name, "schedule": s.choices(), "preemptions": s.preemptions()})
        for i, (g, w) in enumerate(zip(got, want)):
            if g != w:
                acc.violation("SCH", "task-result-differs", {"harness": hi, "name": name, "schedule": s.choices(), "task": i},
                              expected=_show2(w), observed=_show2(g))
                return

    if only_schedule is not None:
        s = sched.Schedule(only_schedule)
        on_result(s, sched.execute_tasks(make, s))
        return
    st = sched.explore(lambda s: sched.execute_tasks(make, s), bound, on_result)
    if record:
        acc.count("SCH.max_points", st["max_points"])
        acc.info.setdefault("harness_%s" % name, {"schedules": st["schedules"], "max_points": st["max_points"], "bound": bound,
                                                  "distinct_outcomes": len(outcomes)})


def _show2(x):
    return [x[0], repr(x[1])[:200]]


REQUIRE = {"EQ.file.forms": 100, "EQ.txt.forms": 100, "EQ.c01.plain": 100, "EQ.c01.proxy": 100, "EQ.c02.proxy": 100, "EQ.c13.proxy": 100, "EQ.c11.proxy": 100, "EQ.c03.proxy": 100,
           "SCH.schedules": 50, "SCH.preemptions=1": 20}


def check_case(sub, case, acc):
    if sub == "EQ":
        _eq(case["family"], case["query"], acc, record=False, only_doc=case["di"])
    else:
        _schedules(case["harness"], 0, acc, record=False, only_schedule=case["schedule"])


def signature(sub, case, v):
    import re

    if sub == "EQ":
        q = case["query"]
        shape = re.sub(r"'[^']*'", "s", q)
        shape = re.sub(r"[0-9]+", "9", shape)
        shape = re.sub(r"[a-z]+", "w", shape)
        from .common import type_tag
        return "C08.%s.%s.%s.%s" % (v["kind"], case["form"], shape[:40], type_tag(case["doc"]))
    return "C08.SCH.%s.%s" % (v["kind"], case["name"])
