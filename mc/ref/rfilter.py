"""Reference semantics of filter expressions: RFC 9535 2.3.5 and 2.4, plus the
documented extensions (docs/syntax.md, docs/functions.md).  No code from jsonpath.*.

expr := ("or", a, b) | ("and", a, b) | ("not", e) | ("paren", e)
      | ("cmp", op, comparable, comparable)      op in == != < <= > >=  (ext: <> =~ in contains)
      | ("test", query) | ("call", name, [arg...])
comparable/arg := ("lit", json) | ("q", query) | ("call", name, [arg...])
      | ("key",) | ("undef",) | ("re", pattern, flags) | ("list", [json...])         # extensions
"""
import re

from ..jsonutil import jeq
from . import rpath
from .rpath import NOTHING

FUNCS = {
    # name: (param types, return type)
    "length": (("value",), "value"),
    "count": (("nodes",), "value"),
    "match": (("value", "value"), "logical"),
    "search": (("value", "value"), "logical"),
    "value": (("nodes",), "value"),
}


def is_number(v):
    return isinstance(v, (int, float)) and not isinstance(v, bool)


def eq(a, b):
    if a is NOTHING or b is NOTHING:
        return a is NOTHING and b is NOTHING
    return jeq(a, b)


def lt(a, b):
    if is_number(a) and is_number(b):
        return a < b
    if isinstance(a, str) and isinstance(b, str):
        return a < b
    return False


def compare(op, a, b):
    if op == "==":
        return eq(a, b)
    if op in ("!=", "<>"):
        return not eq(a, b)
    if op == "<":
        return lt(a, b)
    if op == ">":
        return lt(b, a)
    if op == "<=":
        return lt(a, b) or eq(a, b)
    if op == ">=":
        return lt(b, a) or eq(a, b)
    if op == "in":
        return member(a, b)
    if op == "contains":
        return member(b, a)
    if op == "=~":
        # b is ("re", pattern, flags) evaluated to a compiled-pattern stand-in
        if not isinstance(a, str) or not isinstance(b, tuple) or b[0] != "re":
            return False
        return re.fullmatch(b[1], a, _flags(b[2])) is not None
    raise ValueError(op)


def _flags(s):
    f = 0
    for ch in s:
        f |= {"a": re.A, "i": re.I, "m": re.M, "s": re.S}[ch]
    return f


def member(x, container):
    """docs: membership in arrays (by value), strings (substring), objects (key)."""
    if x is NOTHING or container is NOTHING:
        return False
    if isinstance(container, list):
        for y in container:
            if jeq(x, y):
                return True
        return False
    if isinstance(container, str):
        return isinstance(x, str) and _substring(x, container)
    if isinstance(container, dict):
        return isinstance(x, str) and any(k == x for k in container)
    return False


def _substring(x, s):
    n, m = len(x), len(s)
    for i in range(0, m - n + 1):
        if s[i:i + n] == x:
            return True
    return False


def comparable(c, ctx, node, key):
    k = c[0]
    if k == "lit":
        return c[1]
    if k == "q":
        nl = rpath.eval_query(c[1], ctx, node)
        if len(nl) == 1:
            return nl[0][1]
        if len(nl) == 0:
            return NOTHING
        raise ValueError("non-singular query used as a value: %r" % (c,))
    if k == "call":
        r = call(c, ctx, node, key)
        return r
    if k == "key":
        return NOTHING if key is None else key
    if k == "undef":
        return NOTHING
    if k == "re":
        return c
    if k == "list":
        return list(c[1])
    raise ValueError(c)


def call(c, ctx, node, key):
    _, name, args = c
    params, _ret = FUNCS[name]
    if len(params) != len(args):
        raise ValueError("arity")
    vals = []
    for p, a in zip(params, args):
        if p == "nodes":
            if a[0] != "q":
                raise ValueError("nodes parameter needs a query")
            vals.append(rpath.eval_query(a[1], ctx, node))
        else:
            vals.append(comparable(a, ctx, node, key))
    if name == "length":
        v = vals[0]
        if isinstance(v, str):
            return len(v)
        if isinstance(v, (list, dict)):
            return len(v)
        return NOTHING
    if name == "count":
        return len(vals[0])
    if name == "value":
        return vals[0][0][1] if len(vals[0]) == 1 else NOTHING
    if name in ("match", "search"):
        s, p = vals
        if not isinstance(s, str) or not isinstance(p, str):
            return False
        try:
            rx = re.compile(p)
        except re.error:
            return False
        return (rx.fullmatch(s) if name == "match" else rx.search(s)) is not None
    raise ValueError(name)


def truth(e, ctx, node, key=None):
    k = e[0]
    if k == "or":
        return truth(e[1], ctx, node, key) or truth(e[2], ctx, node, key)
    if k == "and":
        return truth(e[1], ctx, node, key) and truth(e[2], ctx, node, key)
    if k == "not":
        return not truth(e[1], ctx, node, key)
    if k == "paren":
        return truth(e[1], ctx, node, key)
    if k == "cmp":
        return compare(e[1], comparable(e[2], ctx, node, key), comparable(e[3], ctx, node, key))
    if k == "test":
        return len(rpath.eval_query(e[1], ctx, node)) > 0
    if k == "call":
        r = call(e, ctx, node, key)
        if FUNCS[e[1]][1] != "logical":
            raise ValueError("value-typed function used as a test")
        return bool(r)
    raise ValueError(e)
