"""C07 - compile-time gate: valid RFC queries accepted, ill-typed or out-of-range refused.

E-PROD + E-CONF: expression trees without a well-typedness filter, classified by the
independent mc.ref.rtype; lexical cases (integer range under two environments, leading
zeros, list shape, uncompared literals).
"""
import itertools

from ..gen import spell
from ..ref import rtype
from ..ref.rpath import C, D, F, I, N, Q, S, W
from .common import chunks, tup

ID = "C07"
RULE = (
    "F: every call of the five functions (and an unknown one) with 0..3 arguments drawn from 9 argument kinds (literal, "
    "singular query, two non-singular queries, value-typed call, logical-typed call, comparison, logical expression, nested "
    "ill-typed call), used as a test and as either comparison operand; every literal kind (null, true, false, float, negative, '', string, 0) at every argument position of 1- and 2-argument calls; O: every comparison over 8 operand kinds; each basic "
    "expression placed at every position (top, under !, either side of && and ||, in parentheses, inside a nested filter); "
    "depth-2 nestings of calls (thorough: 3). S: every spelling (both quote styles, dot/bracket forms, one blank at every ABNF S position) of a sample of the well-typed expressions at three positions must compile; L: index and slice bounds at limit-1, limit, limit+1 (both signs) under the "
    "default environment, one narrowed to +-10 and two with asymmetric limits (-3..10, -10..3); M: the limits and the type-check switch changed on an environment (instance or class attribute) that has compiled the same text before, every order of 3 of 4 configurations; leading zeros; list shapes; uncompared literals at every position. "
    "state = distinct (environment, query text); non-trivial = the classifier says well-typed (must compile)"
)
ASSUMPTIONS = [
    "classifier mc/ref/rtype.py written from RFC 9535 2.4.3, self-tested on the RFC's examples",
    "negative side contains only the rejection classes the statement lists; other RFC-invalid text accepted as an extension is not demanded to be rejected",
    "rejected == compile raises a JSONPathError subclass; accepted == compile returns",
]


def at(*s):
    return Q(*s, root="@")


SQ = ("q", at(C(N("a"))))
SQ2 = ("q", Q(C(N("k")), C(I(0))))
NSQ = ("q", at(C(W)))
NSQ2 = ("q", at(D(N("a"))))
NSQ3 = ("q", at(C(I(0), I(1))))
NSQ4 = ("q", at(C(S(0, 1, None))))
LIT = ("lit", 1)
LITS = ("lit", "a")
VCALL = ("call", "length", [SQ])
VCALL2 = ("call", "count", [NSQ])
VCALL3 = ("call", "value", [NSQ2])
LCALL = ("call", "match", [SQ, LITS])
LCALL2 = ("call", "search", [SQ, LITS])
CMP = ("cmp", "==", SQ, LIT)
LOGIC = ("and", ("test", at(C(N("a")))), ("test", at(C(N("b")))))
BADCALL = ("call", "length", [NSQ])
TESTQ = ("test", at(C(N("a"))))
TESTN = ("test", at(C(W)))

ARG_KINDS = [LIT, SQ, NSQ, NSQ2, VCALL, LCALL, CMP, LOGIC, BADCALL]
FUNCS = ["length", "count", "match", "search", "value", "nosuch"]


def selftest():
    return rtype.selftest()


def calls(max_args=3):
    out = []
    for f in FUNCS:
        for n in range(0, max_args + 1):
            for args in itertools.product(ARG_KINDS, repeat=n):
                out.append(("call", f, list(args)))
    return out


def basics(tier):
    out = []
    cs = calls(3)
    for c in cs:
        out.append(c)                                   # as a test
        out.append(("cmp", "==", c, LIT))               # as left operand
        out.append(("cmp", "<", LITS, c))               # as right operand
    # every literal kind at every argument position (the argument parser dispatches on the token kind)
    for f in FUNCS[:5]:
        for v in (None, True, False, 1.5, -1, "", "a", 0):
            l = ("lit", v)
            forms = [[l]]
            for other in (SQ, LITS, NSQ):
                forms += [[l, other], [other, l]]
            for args in forms:
                c = ("call", f, args)
                out.append(c)
                out.append(("cmp", "==", c, LIT))
                out.append(("cmp", ">=", ("lit", None), c))
    operands = [LIT, LITS, ("lit", None), ("lit", True), SQ, SQ2, NSQ, NSQ2, NSQ3, NSQ4, VCALL, VCALL2, VCALL3, LCALL, BADCALL]
    for op in ("==", "!=", "<", "<=", ">", ">="):
        for a in operands:
            for b in operands:
                out.append(("cmp", op, a, b))
    for v in (1, "a", True, False, None, 1.5):
        out.append(("littest", v))
    out += [TESTQ, TESTN, ("test", Q(C(N("k")))), ("test", at(C(F(("call", "length", [SQ]))))),
            ("test", at(C(F(("cmp", "==", NSQ, LIT))))), ("test", at(C(F(LCALL)))), ("test", at(D(F(("littest", 1)))))]
    # nested calls, depth 2
    inner = [VCALL, VCALL2, VCALL3, LCALL, BADCALL, ("call", "count", [LIT]), ("call", "value", [SQ])]
    for f in FUNCS[:5]:
        for a in inner:
            out.append(("cmp", "==", ("call", f, [a]), LIT))
            out.append(("call", f, [a, LITS]))
            out.append(("call", f, [SQ, a]))
    if tier == "thorough":
        for f in FUNCS[:5]:
            for g in FUNCS[:5]:
                for a in inner:
                    out.append(("cmp", "==", ("call", f, [("call", g, [a])]), LIT))
                    out.append(("call", f, [("call", g, [a]), LITS]))
    return out


POSITIONS = ["top", "not", "and-l", "and-r", "or-l", "or-r", "paren", "not-paren", "nested", "and-or"]


def place(e, pos):
    if pos == "top":
        return e
    if pos == "not":
        return ("not", e)
    if pos == "and-l":
        return ("and", e, TESTQ)
    if pos == "and-r":
        return ("and", TESTQ, e)
    if pos == "or-l":
        return ("or", e, TESTQ)
    if pos == "or-r":
        return ("or", TESTQ, e)
    if pos == "paren":
        return ("paren", e)
    if pos == "not-paren":
        return ("not", ("paren", e))
    if pos == "nested":
        return ("test", at(C(F(e))))
    if pos == "and-or":
        return ("or", ("and", TESTQ, e), ("cmp", "==", SQ, LIT))
    raise ValueError(pos)


LIMIT = 2 ** 53 - 1


def lexical_cases():
    """(env, text, expect_ok, tag)"""
    out = []
    for env, lim, lo in (("default", LIMIT, -LIMIT), ("narrow", 10, -10), ("asym", 10, -3), ("asym2", 3, -10)):
        for v in (lim - 1, lim, lim + 1, lo + 1, lo, lo - 1, -lim, -(lim + 1), -lo, 0, 1, -1):
            ok = lo <= v <= lim
            out.append((env, "$[%d]" % v, ok, "index-range"))
            out.append((env, "$[%d:]" % v, ok, "slice-range"))
            out.append((env, "$[:%d]" % v, ok, "slice-range"))
            out.append((env, "$[::%d]" % v, ok, "slice-range"))
            out.append((env, "$[0,%d]" % v, ok, "index-range"))
            out.append((env, "$..[%d]" % v, ok, "index-range"))
            out.append((env, "$[?@[%d]]" % v, ok, "index-range"))
            out.append((env, "$[?@[%d] == 1]" % v, ok, "index-range"))
            out.append((env, "$[?count(@[:%d]) == 1]" % v, ok, "slice-range"))
    for env in ("default", "narrow"):
        for t in ("$[01]", "$[-0]", "$[-01]", "$[00]", "$[0,01]", "$..[01]", "$[?@[01]]", "$[?@[-0] == 1]", "$[007]"):
            out.append((env, t, False, "leading-zero"))
        for t in ("$[]", "$[1,]", "$['a',]", "$[*,]", "$[1:2,]", "$..[]", "$[?@[]]", "$[?@.a,]", "$[,1]", "$[1,,2]"):
            out.append((env, t, False, "list-shape"))
        for t in ("$[0]", "$[-1]", "$[1,2]", "$['a','b']", "$[10]", "$[ 1 , 2 ]", "$[-10]", "$[1:2:3]", "$[0,0]"):
            out.append((env, t, True, "ok"))
        lits = ["1", "'a'", "true", "false", "null", "1.5", '"a"', "-1", "1e2"]
        for l in lits:
            for tmpl in ("$[?%s]", "$[?!%s]", "$[?(%s)]", "$[?%s && @.a]", "$[?@.a && %s]", "$[?%s || @.a]", "$[?@.a || %s]",
                         "$[?@.a == 1 && %s]", "$[?(@.a || %s)]", "$[?@[?%s]]", "$[?!(%s)]", "$..[?%s]", "$[0, ?%s]",
                         "$[?%s && %s]"):
                out.append((env, tmpl.replace("%s", l), False, "uncompared-literal"))
    return out


def bounds(tier, seed):
    return {"basics": len(basics(tier)), "positions": len(POSITIONS), "lexical": len(lexical_cases())}


def plan(tier, seed):
    shards = []
    nb = len(basics(tier))
    for lo in range(0, nb, 300):
        shards.append(("T", tier, lo, min(nb, lo + 300)))
    shards.append(("L",))
    shards.append(("M",))
    ws = well_typed_sample(tier)
    for lo in range(0, len(ws), 20):
        shards.append(("S", tier, lo, min(len(ws), lo + 20)))
    return shards


def well_typed_sample(tier):
    out = []
    step = 7 if tier == "quick" else 2
    for i, e in enumerate(basics("quick")):
        if i % step == 0 and rtype.logical_ok(e):
            out.append(e)
    return out


_ENVS = {}


def env(name, well_typed=True):
    import jsonpath

    key = (name, well_typed)
    if key not in _ENVS:
        if name == "default":
            _ENVS[key] = jsonpath.JSONPathEnvironment(well_typed=well_typed)
        else:
            hi, lo = {"narrow": (10, -10), "asym": (10, -3), "asym2": (3, -10)}[name]
            cls = type("Limits_" + name, (jsonpath.JSONPathEnvironment,), {"max_int_index": hi, "min_int_index": lo})
            _ENVS[key] = cls(well_typed=well_typed)
    return _ENVS[key]


M_TEXTS = ["$[11]", "$[-11]", "$[:11]", "$[::-11]", "$[?@[11]]", "$..[11, 0]", "$[5]", "$[?count(@[1:11]) == 1]"]
M_ILLTYPED = ["$[?length(@.*) == 1]", "$[?@.* == 1]", "$[?match(@.a, 'a') == true]", "$[?length(@.a)]"]


def _mutated(acc, record=True, only=None):
    """The limits and the type-check switch in force when compile() is called decide, also on an environment whose
    configuration was changed after it had compiled the same text before (every order of the configurations)."""
    import jsonpath
    from jsonpath import JSONPathError

    configs = [("wide", None), ("narrow", (10, -10)), ("wide2", None), ("narrow2", (10, -10))]
    for order in itertools.permutations(range(4), 3):
        for how in ("instance", "class"):
            cls = type("Mut", (jsonpath.JSONPathEnvironment,), {})
            e = cls()
            for step, ci in enumerate(order):
                name, lim = configs[ci]
                target = e if how == "instance" else cls
                if lim is None:
                    target.max_int_index, target.min_int_index = LIMIT, -LIMIT
                else:
                    target.max_int_index, target.min_int_index = lim
                for text in M_TEXTS:
                    key = [list(order), how, step, text]
                    if only is not None and key != only:
                        continue
                    ok = lim is None or text == "$[5]"
                    try:
                        e.compile(text)
                        got = True
                    except JSONPathError:
                        got = False
                    except Exception as ex:  # noqa: BLE001
                        got = "%s: %s" % (type(ex).__name__, ex)
                    if record:
                        acc.case("M", (order, how, step, text), outcome=ok, nontrivial=ok)
                        acc.count("M.limits")
                    if got is not ok:
                        acc.violation("M", "stale-configuration", {"mut": key}, expected="accepted" if ok else "rejected",
                                      observed="accepted" if got is True else ("rejected" if got is False else got))
    # the type-check switch
    for first in (False, True):
        e = jsonpath.JSONPathEnvironment(well_typed=first)
        for step, wt in enumerate((first, not first, first)):
            e.well_typed = wt
            for text in M_ILLTYPED:
                key = [[int(first)], "well_typed", step, text]
                if only is not None and key != only:
                    continue
                try:
                    e.compile(text)
                    got = True
                except JSONPathError:
                    got = False
                except Exception as ex:  # noqa: BLE001
                    got = "%s: %s" % (type(ex).__name__, ex)
                ok = not wt
                if record:
                    acc.case("M", (first, "well_typed", step, text), outcome=ok, nontrivial=ok)
                    acc.count("M.switch")
                if got is not ok:
                    acc.violation("M", "stale-configuration", {"mut": key}, expected="accepted" if ok else "rejected",
                                  observed="accepted" if got is True else ("rejected" if got is False else got))


def run_shard(shard, acc):
    if shard[0] == "M":
        _mutated(acc)
        return
    if shard[0] == "T":
        for e in basics(shard[1])[shard[2]:shard[3]]:
            for pos in POSITIONS:
                placed = place(e, pos)
                q = Q(C(F(placed)))
                _check("T", "default", spell.text(q), rtype.logical_ok(placed), acc, {"q": q, "position": pos})
    elif shard[0] == "S":
        # every spelling (quote styles, dot/bracket, one blank at every ABNF S position) of well-typed queries compiles
        o = spell.Opts(full_strings=False)
        blanks = (" ",) if shard[1] == "quick" else spell.BLANKS
        for e in well_typed_sample(shard[1])[shard[2]:shard[3]]:
            for pos in ("top", "not-paren", "and-r"):
                q = Q(C(F(place(e, pos))))
                for text in spell.spellings(spell.query(q, o), 1, True, blanks=blanks):
                    _check("S", "default", text, True, acc, {"q": q, "position": pos})
    else:
        for envname, text, ok, tag in lexical_cases():
            _check("L", envname, text, ok, acc, {"tag": tag})


def _check(sub, envname, text, expect_ok, acc, extra, record=True):
    from jsonpath import JSONPathError

    e = env(envname)
    try:
        e.compile(text)
        got = "accepted"
    except JSONPathError:
        got = "rejected"
    except Exception as ex:  # noqa: BLE001
        got = "exception %s: %s" % (type(ex).__name__, ex)
    if record:
        acc.case(sub, (envname, text), outcome=expect_ok, nontrivial=expect_ok)
        acc.count("%s.%s" % (sub, "ok" if expect_ok else "ill"))
        if "tag" in extra:
            acc.count("tag." + extra["tag"])
        if acc.evals % 2500 == 1:
            acc.sample(sub, {"env": envname, "text": text, "well_typed": expect_ok})
    want = "accepted" if expect_ok else "rejected"
    if got != want:
        case = {"env": envname, "text": text}
        case.update(extra)
        acc.violation(sub, "ill-typed-accepted" if got == "accepted" else ("valid-rejected" if got == "rejected" else "exception"),
                      case, expected=want, observed=got)


REQUIRE = {"S.ok": 1000, "T.ok": 500, "T.ill": 5000, "L.ok": 50, "L.ill": 200, "tag.index-range": 10, "tag.slice-range": 10,
           "tag.leading-zero": 5, "tag.list-shape": 5, "tag.uncompared-literal": 50}


def check_case(sub, case, acc):
    if sub == "M":
        _mutated(acc, record=False, only=case["mut"])
        return
    if sub in ("T", "S"):
        q = tup(case["q"])
        placed = q[2][0][1][0][1]
        _check(sub, case["env"], case["text"], rtype.logical_ok(placed), acc, {"q": q, "position": case.get("position")}, record=False)
    else:
        ok = None
        for envname, text, expect, tag in lexical_cases():
            if envname == case["env"] and text == case["text"]:
                ok = expect
        if ok is None:
            raise ValueError("unknown lexical case")
        _check("L", case["env"], case["text"], ok, acc, {"tag": case.get("tag")}, record=False)


def _shape(e):
    k = e[0]
    if k in ("or", "and"):
        return "%s(%s,%s)" % (k, _shape(e[1]), _shape(e[2]))
    if k in ("not", "paren"):
        return "%s(%s)" % (k, _shape(e[1]))
    if k == "cmp":
        return "cmp(%s,%s)" % (_shape(e[2]), _shape(e[3]))
    if k == "test":
        inner = [s for seg in e[1][2] for s in seg[1] if s[0] == "filter"]
        return "test[%s]" % _shape(inner[0][1]) if inner else "test"
    if k == "call":
        return "%s(%s)" % (e[1], ",".join(_shape(a) for a in e[2]))
    if k == "q":
        from ..ref.rpath import is_singular
        return "sq" if is_singular(e[1]) else "nsq"
    if k == "lit":
        return "lit"
    return k


def signature(sub, case, v):
    if sub == "M":
        return "C07.M.%s.%s.%s" % (v["kind"], case["mut"][1], v.get("expected"))
    if sub == "L":
        import re
        return "C07.L.%s.%s.%s.%s" % (v["kind"], case.get("tag"), case["env"], re.sub(r"[0-9]{3,}", "N", case["text"])[:40])
    q = tup(case["q"])
    placed = q[2][0][1][0][1]
    return "C07.T.%s.%s" % (v["kind"], _shape(placed)[:120])
