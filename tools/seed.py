#!/usr/bin/env python3
"""tools/seed.py <PROP> <worktree> <diff-name> <demo-name> <slug> [--checks "C04 C14"] [--needs "..."]

Confirm an independently written property-breaking change in its scratch worktree and file it under
/verif/seeded/<PROP>-<slug>/ (patch.diff, demo test, meta.json):
  1. clean tree: the demo passes;  2. change applied: the repository's own suite still passes and the demo fails;
  3. the listed checks (default: the property's own, quick tier) are run with VERIF_REPO=<worktree> and must report a VIOLATION.
The worktree is left clean.
"""
import json, os, re, shutil, subprocess, sys

def sh(cmd, cwd=None, env=None):
    r = subprocess.run(cmd, shell=True, cwd=cwd, env=env, capture_output=True, text=True)
    return r.returncode, (r.stdout + r.stderr)

prop, wt, diffname, demoname, slug = sys.argv[1:6]
args = sys.argv[6:]
checks = [prop]
needs = ""
tier = "quick"
while args:
    a = args.pop(0)
    if a == "--checks": checks = args.pop(0).split()
    elif a == "--needs": needs = args.pop(0)
    elif a == "--tier": tier = args.pop(0)
py = "/venv/bin/python"
diff = open(os.path.join(wt, diffname)).read()
demo = open(os.path.join(wt, demoname)).read()
sh("git checkout -- jsonpath && git clean -fdq jsonpath", cwd=wt)
ran = []
rc, out = sh(f"{py} -m pytest -q -p no:cacheprovider {demoname}", cwd=wt); ran.append(f"clean tree: pytest {demoname} -> rc={rc} {out.strip().splitlines()[-1] if out.strip() else ''}")
ok_clean = rc == 0
rc, out = sh(f"git apply {diffname}", cwd=wt)
if rc != 0:
    print("diff does not apply:", out); sys.exit(1)
rc, out = sh(f"{py} -m pytest -q -p no:cacheprovider --continue-on-collection-errors tests", cwd=wt)
last = out.strip().splitlines()[-1]
ran.append(f"change applied: repository suite -> {last}")
suite_ok = bool(re.search(r"\b719 passed", last)) and "failed" not in last
rc, out = sh(f"{py} -m pytest -q -p no:cacheprovider {demoname}", cwd=wt); ran.append(f"change applied: pytest {demoname} -> rc={rc} {out.strip().splitlines()[-1] if out.strip() else ''}")
demo_fails = rc != 0
detected = {}
env = dict(os.environ); env["VERIF_REPO"] = wt
for c in checks:
    rc, out = sh(f"/verif/check {c} {tier}", env=env)
    viol = [l for l in out.splitlines() if l.startswith("VIOLATION")]
    sigs = [l.strip()[:300] for l in out.splitlines() if l.strip().startswith("signature=")]
    detected[c] = {"exit": rc, "violations": len(viol), "first_signatures": sigs[:3]}
    ran.append(f"VERIF_REPO={wt} ./check {c} {tier} -> exit {rc}, {len(viol)} VIOLATION lines")
sh("git checkout -- jsonpath && git clean -fdq jsonpath", cwd=wt)
confirmed = ok_clean and suite_ok and demo_fails
d = f"/verif/seeded/{prop}-{slug}"
os.makedirs(d, exist_ok=True)
open(os.path.join(d, "patch.diff"), "w").write(diff)
open(os.path.join(d, os.path.basename(demoname)), "w").write(demo)
meta = {"property": prop, "slug": slug, "written_by": "independent sub-agent given only the property text and a scratch worktree",
        "needs_to_manifest": needs, "confirmed": confirmed,
        "confirmation": {"demo_passes_on_clean_tree": ok_clean, "repository_suite_passes_with_change": suite_ok, "demo_fails_with_change": demo_fails},
        "checks_run": detected, "caught_by": [c for c, v in detected.items() if v["exit"] == 1], "what_i_ran": ran}
json.dump(meta, open(os.path.join(d, "meta.json"), "w"), indent=1)
print(json.dumps({"confirmed": confirmed, "caught_by": meta["caught_by"], "ran": ran}, indent=1))
