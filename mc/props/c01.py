"""C01 - RFC 9535 segments and selectors yield exactly the specified nodelist.

E-PROD over four complete levels (DESIGN 5/C01): A selector x node, B lists,
C pipelines, D spellings.  Oracle: mc.ref.rpath.
"""
import itertools

from .. import univ
from ..gen import spell
from ..jsonutil import jeq_list, ckey
from ..ref import rpath, selftest_path
from ..ref.rpath import C, D, I, N, Q, S, W
from .common import tup, type_tag, shrink_doc, chunks

ID = "C01"
JSON_CASES = True
RULE = (
    "level A: every single-segment query (child and descendant) over the full selector alphabet x every document of "
    "the universe; B: every 2-(3-)selector list over a 12-selector alphabet; C: every 2-(3-)segment pipeline; "
    "E: every 2-selector list over 8 (quick: 6, on every third document) selectors as the first segment (child and descendant) followed by every single-selector segment or a "
    "2-selector list over 4 (thorough: 6) selectors, and preceded by every single-selector child segment; thorough: 3-segment pipelines of "
    "2-selector lists over 4 selectors; "
    "D: every spelling (dot/bracket, quote style, escape style, <= d blanks at every ABNF S position) of the A-name, B and C(k=2) ASTs. "
    "state = distinct (query text, document); non-trivial = the reference nodelist is non-empty; "
    "outcome = the nodelist; compared through compile().findall, compile().finditer and env.findall"
)
ASSUMPTIONS = [
    "reference model mc/ref/rpath.py written from RFC 9535 2.3/2.5, self-tested on the RFC's example tables each run",
    "typed JSON equality (true != 1, 1 == 1.0), order and duplicates significant",
    "documented departures encoded: index selector on an object selects the member named by its decimal spelling (model clause); "
    "descendant shorthand of reserved words not generated",
    "integers beyond 2^53 and nesting beyond depth 2 (3 for strings-in-arrays documents) not generated",
]

BIG = 2 ** 53 - 1
NAMES_A = ["a", "b", "c", "1", "-1", "0", ""]
INDICES_A = list(range(-5, 6)) + [BIG, -BIG]
SLICE_BOUNDS = [None, 0, 1, -1, 2, -2, 5, -5, 3]
SLICE_STEPS = [None, 1, 2, -1, -2, 0]
RED12 = [N("a"), N("b"), N("1"), I(0), I(1), I(-1), I(2), S(1, None, None), S(None, None, -1), S(0, 2, None),
         S(None, None, 2), W]

RED8 = [N("a"), N("b"), I(0), I(1), I(-1), S(1, None, None), S(None, None, -1), W]
RED6 = [N("a"), N("b"), I(0), I(-1), S(None, None, -1), W]
RED4 = [N("a"), I(0), I(-1), W]

EXTRA_DOCS = [
    [10, 11, 12, 13], [10, 11, 12, 13, 14], {"1": 10, "a": 11, "-1": 12, "0": 13}, "ab", 1, 1.5, True, False, None, 0,
    {"": 1, "a": 2}, ["ab", [10, "cd"]], {"a": "ab", "b": {"a": "cd"}}, {"b": 1, "a": 2}, [[], {}], "",
]
SEP_DOCS = [
    {"a": [10, 11, 12], "b": {"a": 13, "b": [14], "1": 15}, "1": 16},
    [[20, 21, 22], {"a": 23, "b": 24}, 25],
    {"b": {"b": {"a": 1}}, "a": {"a": [2, [3]]}},
    ["ab", {"a": "cd", "1": [5, 6]}],
    [],
    {},
    {"1": {"1": {"1": 7}}, "a": None},
    [[[1, 2], [3]], [[4]]],
]

from ..gen.alpha import SIGMA_C, LOOKALIKES, names_upto  # noqa: E402


def selftest():
    return selftest_path.run()


def bounds(tier, seed):
    if tier == "quick":
        return {"A.docs": "Univ(1,3,4 leaves,{a,b}) + %d extra" % len(EXTRA_DOCS), "B.selectors_per_list": 2,
                "C.segments": 2, "C.docs": "Univ(2,2,2 leaves)", "D.blanks": 1, "D.name_len": 2,
                "seed_block": "level C k=3 queries whose first segment index == seed mod 24"}
    return {"A.docs": "Univ(2,2,4 leaves,{a,b}) + extra", "B.selectors_per_list": 3, "C.segments": 3,
            "C.docs": "Univ(2,2,2 leaves)", "D.blanks": 2, "D.name_len": 2, "D.name_len3_default_spelling": True}


def sel_alphabet_A():
    out = [N(n) for n in NAMES_A] + [I(i) for i in INDICES_A]
    for a in SLICE_BOUNDS:
        for b in SLICE_BOUNDS:
            for c in SLICE_STEPS:
                out.append(S(a, b, c))
    out.append(W)
    return out


def docs_A(tier):
    if tier == "quick":
        ds = list(univ.univ(1, 3))
    else:
        ds = list(univ.univ(2, 2))
    return ds + [d for d in EXTRA_DOCS]


def docs_C():
    return list(univ.univ(2, 2, univ.LEAVES2)) + [EXTRA_DOCS[11], EXTRA_DOCS[12], EXTRA_DOCS[2]]


def plan(tier, seed):
    shards = []
    nA = len(sel_alphabet_A())
    step = 8 if tier == "quick" else 2
    for lo in range(0, nA, step):
        shards.append(("A", tier, lo, min(nA, lo + step)))
    k = 2 if tier == "quick" else 3
    combos = len(RED12) ** k
    per = 16 if tier == "quick" else 48
    for lo in range(0, combos, per):
        shards.append(("B", tier, k, lo, min(combos, lo + per)))
    segs = [(kind, s) for kind in ("child", "desc") for s in range(len(RED12))]
    nseg = len(segs)
    if tier == "quick":
        for first in range(nseg):
            shards.append(("C", 2, first, None))
        f3 = seed % nseg
        for second in range(0, nseg, 4):
            shards.append(("C", 3, f3, (second, second + 4)))
    else:
        for first in range(nseg):
            for second in range(0, nseg, 4):
                shards.append(("C", 3, first, (second, second + 4)))
            shards.append(("C", 2, first, None))
    # E: selector lists inside pipelines (a list of >= 2 selectors followed / preceded by further segments)
    nE = (len(RED8) if tier == "thorough" else len(RED6)) ** 2 * 2
    for lo in range(0, nE, 8 if tier == "quick" else 4):
        shards.append(("E", tier, lo, min(nE, lo + (8 if tier == "quick" else 4))))
    if tier == "thorough":
        for a in range(len(RED4) ** 2):
            shards.append(("E3", a))
    # D: spellings
    d = 1 if tier == "quick" else 2
    names = names_upto(2) + LOOKALIKES
    for part in chunks(list(range(len(names))), 24 if tier == "quick" else 6):
        shards.append(("Dn", d, part[0], part[-1] + 1))
    for lo in range(0, len(RED12) ** 2, 6 if tier == "quick" else 2):
        shards.append(("Db", d, lo, lo + (6 if tier == "quick" else 2)))
    for first in range(nseg):
        for second in range(0, nseg, 6 if tier == "quick" else 2):
            shards.append(("Dc", 1 if tier == "quick" else 2, first, second, second + (6 if tier == "quick" else 2)))
    if tier == "thorough":
        n3 = names_upto(3)
        for part in chunks(list(range(len(n3))), 400):
            shards.append(("Dn3", part[0], part[-1] + 1))
    return shards


def _mk_seg(idx):
    n = len(RED12)
    return ("child" if idx < n else "desc", [RED12[idx % n]])


def run_shard(shard, acc):
    kind = shard[0]
    if kind == "A":
        _, tier, lo, hi = shard
        sels = sel_alphabet_A()[lo:hi]
        docs = docs_A(tier)
        for s in sels:
            for segk in ("child", "desc"):
                q = Q((segk, [s]))
                _eval_all("A", q, spell.text(q), docs, acc)
    elif kind == "B":
        _, tier, k, lo, hi = shard
        docs = docs_A("quick")
        combos = list(itertools.product(range(len(RED12)), repeat=k))[lo:hi]
        for combo in combos:
            for segk in ("child", "desc"):
                q = Q((segk, [RED12[i] for i in combo]))
                _eval_all("B", q, spell.text(q), docs, acc)
    elif kind == "C":
        _, k, first, rng = shard
        docs = docs_C()
        nseg = 2 * len(RED12)
        if k == 2:
            for second in range(nseg):
                q = Q(_mk_seg(first), _mk_seg(second))
                _eval_all("C", q, spell.text(q), docs, acc)
        else:
            for second in range(rng[0], min(rng[1], nseg)):
                for third in range(nseg):
                    q = Q(_mk_seg(first), _mk_seg(second), _mk_seg(third))
                    _eval_all("C", q, spell.text(q), docs, acc)
    elif kind == "E":
        _, tier, lo, hi = shard
        docs = docs_C() if tier == "thorough" else docs_C()[::3]
        r1 = RED8 if tier == "thorough" else RED6
        firsts = [(k, [a, b]) for k in ("child", "desc") for a in r1 for b in r1][lo:hi]
        seconds = [_mk_seg(i) for i in range(2 * len(RED12))]
        pool = RED6 if tier == "thorough" else RED4
        seconds += [(k, [a, b]) for k in (("child", "desc") if tier == "thorough" else ("child",)) for a in pool for b in pool]
        for f in firsts:
            for g in seconds:
                q = Q(f, g)
                _eval_all("E", q, spell.text(q), docs, acc)
                if g[0] == "child" and len(g[1]) == 1:
                    q = Q(g, f)
                    _eval_all("E", q, spell.text(q), docs, acc)
    elif kind == "E3":
        docs = docs_C()
        a, b = RED4[shard[1] // len(RED4)], RED4[shard[1] % len(RED4)]
        lists = [[x, y] for x in RED4 for y in RED4]
        for l2 in lists:
            for l3 in lists:
                q = Q(("child", [a, b]), ("child", l2), ("child", l3))
                _eval_all("E", q, spell.text(q), docs, acc)
    elif kind == "Dn":
        _, d, lo, hi = shard
        names = (names_upto(2) + LOOKALIKES)[lo:hi]
        for nm in names:
            docs = _name_docs(nm)
            for segk in ("child", "desc"):
                q = Q((segk, [N(nm)]))
                for text in spell.spellings(spell.query(q), d, True):
                    _eval_all("D.name", q, text, docs, acc, every=50)
    elif kind == "Dn3":
        _, lo, hi = shard
        for nm in names_upto(3)[lo:hi]:
            if len(nm) < 3:
                continue
            docs = _name_docs(nm)
            q = Q(C(N(nm)))
            for text in spell.spellings(spell.query(q), 0, True):
                _eval_all("D.name3", q, text, docs, acc, every=500)
    elif kind == "Db":
        _, d, lo, hi = shard
        o = spell.Opts(full_strings=False)
        combos = list(itertools.product(range(len(RED12)), repeat=2))[lo:hi]
        for combo in combos:
            for segk in ("child", "desc"):
                q = Q((segk, [RED12[i] for i in combo]))
                for text in spell.spellings(spell.query(q, o), d, True):
                    _eval_all("D.list", q, text, SEP_DOCS, acc, every=50)
    elif kind == "Dc":
        _, d, first, lo, hi = shard
        o = spell.Opts(full_strings=False)
        for second in range(lo, min(hi, 2 * len(RED12))):
            q = Q(_mk_seg(first), _mk_seg(second))
            for text in spell.spellings(spell.query(q, o), d, True):
                _eval_all("D.pipe", q, text, SEP_DOCS, acc, every=50)


def _name_docs(nm):
    other = "zz" if nm != "zz" else "yy"
    return [{nm: 1, other: 2}, {other: {nm: [3]}, nm: {other: 4, nm: 5}}, [nm, {nm: 6}]]


def _eval_all(sub, q, text, docs, acc, every=200):
    import jsonpath

    try:
        p = jsonpath.compile(text)
    except Exception as e:  # noqa: BLE001
        acc.case(sub, (text, "compile"), outcome=("compile-error", type(e).__name__), nontrivial=False)
        acc.violation(sub, "compile-error", {"q": q, "text": text, "doc": None},
                      expected="compiles (valid RFC 9535 query)", observed="%s: %s" % (type(e).__name__, e))
        return
    for i, doc in enumerate(docs):
        exp = rpath.values(q, doc)
        bad = None
        try:
            got = p.findall(doc)
            if not jeq_list(got, exp):
                bad = ("findall", got)
            else:
                got2 = [m.obj for m in p.finditer(doc)]
                if not jeq_list(got2, exp):
                    bad = ("finditer", got2)
                elif i == 0:
                    got3 = jsonpath.findall(text, doc)
                    if not jeq_list(got3, exp):
                        bad = ("env.findall", got3)
        except Exception as e:  # noqa: BLE001
            bad = ("exception", "%s: %s" % (type(e).__name__, e))
        key = (text, ckey(doc))
        acc.case(sub, key, outcome=tuple(ckey(v) for v in exp), nontrivial=bool(exp), trans=3 if i == 0 else 2)
        for seg in q[2]:
            for s in seg[1]:
                acc.count("%s.%s@%s.%s" % (seg[0], s[0], type_tag(doc), "hit" if exp else "miss"))
        if acc.evals % every == 1:
            acc.sample(sub, {"text": text, "doc": doc, "expected": exp})
        if bad:
            acc.violation(sub, "nodelist-" + bad[0] if bad[0] != "exception" else "exception",
                          {"q": q, "text": text, "doc": doc}, expected=exp, observed=bad[1])


def REQUIRE(tier):
    req = {}
    for segk in ("child", "desc"):
        for s in ("name", "index", "slice", "wild"):
            for t in ("object", "array"):
                req["%s.%s@%s.hit" % (segk, s, t)] = 1 if not (s == "slice" and t == "object") else 0
                req["%s.%s@%s.miss" % (segk, s, t)] = 1
            for t in ("string", "number", "bool", "null"):
                req["%s.%s@%s.miss" % (segk, s, t)] = 1
    return {k: v for k, v in req.items() if v}


def check_case(sub, case, acc):
    q = tup(case["q"])
    text = case.get("text") or spell.text(q)
    _eval_all(sub, q, text, [case.get("doc")], acc)


def _texts(q, case):
    """Candidate spellings for a (possibly shrunk) AST: default first, then <=1 blank / other lexical choices
    when the failing case was itself a non-default spelling."""
    dflt = spell.text(q)
    yield dflt
    if case.get("text") and case["text"] != spell.text(tup(case["q"])):
        n = 0
        for t in spell.spellings(spell.query(q, spell.Opts(full_strings=False)), 1, True, blanks=(" ",)):
            if t != dflt:
                yield t
                n += 1
                if n > 120:
                    break


def shrink(sub, case):
    q = tup(case["q"])
    doc = case["doc"]
    segs = q[2]
    cands = []
    for i in range(len(segs)):
        if len(segs) > 1:
            cands.append(("query", "$", segs[:i] + segs[i + 1:]))
        if len(segs[i][1]) > 1:
            for j in range(len(segs[i][1])):
                seg2 = (segs[i][0], segs[i][1][:j] + segs[i][1][j + 1:])
                cands.append(("query", "$", segs[:i] + [seg2] + segs[i + 1:]))
        if segs[i][0] == "desc":
            cands.append(("query", "$", segs[:i] + [("child", segs[i][1])] + segs[i + 1:]))
        for j, s in enumerate(segs[i][1]):
            if s[0] != "wild":
                seg2 = (segs[i][0], segs[i][1][:j] + [W] + segs[i][1][j + 1:])
                cands.append(("query", "$", segs[:i] + [seg2] + segs[i + 1:]))
            if s[0] == "slice":
                for pos in (1, 2, 3):
                    if s[pos] is not None:
                        s2 = list(s)
                        s2[pos] = None
                        seg2 = (segs[i][0], segs[i][1][:j] + [tuple(s2)] + segs[i][1][j + 1:])
                        cands.append(("query", "$", segs[:i] + [seg2] + segs[i + 1:]))
            if s[0] == "name" and len(s[1]) > 1:
                for k in range(len(s[1])):
                    seg2 = (segs[i][0], segs[i][1][:j] + [N(s[1][:k] + s[1][k + 1:])] + segs[i][1][j + 1:])
                    cands.append(("query", "$", segs[:i] + [seg2] + segs[i + 1:]))
    for q2 in cands:
        for t in _texts(q2, case):
            yield {"q": q2, "text": t, "doc": doc}
    if case.get("text") and case["text"] != spell.text(q):
        yield {"q": q, "text": spell.text(q), "doc": doc}
    for d2 in shrink_doc(doc):
        yield {"q": q, "text": case.get("text") or spell.text(q), "doc": d2}


def _spelling_feature(text, dflt):
    if text == dflt:
        return ""
    i = 0
    while i < len(text) and i < len(dflt) and text[i] == dflt[i]:
        i += 1
    ctx = text[max(0, i - 1):i + 3]
    out = []
    for ch in ctx:
        if ch.isalnum():
            out.append("n")
        elif ch in " \t\n\r":
            out.append("_")
        else:
            out.append(ch)
    return ".spelling(" + "".join(out) + ")"


def signature(sub, case, v):
    q = tup(case["q"])
    kinds = sorted({("desc:" if seg[0] == "desc" else "") + s[0] for seg in q[2] for s in seg[1]})
    sp = _spelling_feature(case.get("text") or spell.text(q), spell.text(q))
    if v["kind"] == "compile-error":
        import re
        msg = re.sub(r"'[^']*'", "'..'", str(v.get("observed")))
        msg = re.sub(r"[0-9]+", "N", msg)
        names = sorted({_name_class(s[1]) for seg in q[2] for s in seg[1] if s[0] == "name"})
        return "C01.compile-error%s.%s.%s.%s" % (sp, "+".join(kinds), "+".join(names), msg[:50])
    doc = case.get("doc")
    t = type_tag(doc)
    if isinstance(doc, list):
        t += "[" + ",".join(sorted({type_tag(x) for x in doc})) + "]"
    elif isinstance(doc, dict):
        t += "{" + ",".join(sorted({type_tag(x) for x in doc.values()})) + "}"
    return "C01.%s%s.%s.on-%s" % (v["kind"], sp, "+".join(kinds), t)


def _name_class(nm):
    if nm in spell.RESERVED:
        return "reserved"
    out = []
    for ch in nm:
        if ch in "_":
            c = "_"
        elif ch.isascii() and ch.isalpha():
            c = "a"
        elif ch.isascii() and ch.isdigit():
            c = "9"
        elif ord(ch) > 0xFFFF:
            c = "astral"
        elif ch.isdigit():
            c = "udigit"
        elif ord(ch) >= 0x80:
            c = "u"
        else:
            c = ch
        if not out or out[-1] != c:
            out.append(c)
    return "".join(out)
