"""Reference model of RFC 6902 JSON Patch on plain JSON values, with functional updates
(every operation returns a new document and never aliases its inputs).
addne / addap per CHANGELOG/docs: the two stated differences only.  No code from jsonpath.*.
"""
from ..jsonutil import deep_copy, jeq
from . import rptr


class PatchError(Exception):
    pass


class TestFailure(PatchError):
    pass


def _get(doc, toks):
    try:
        return rptr.resolve(doc, toks)
    except rptr.CannotEvaluate as e:
        raise PatchError("missing: %s" % e)


def _set(doc, toks, fn):
    """Return a copy of doc with the container at toks replaced by fn(container)."""
    if not toks:
        return fn(doc)
    head = toks[0]
    if isinstance(doc, dict):
        if head not in doc:
            raise PatchError("missing member %r" % head)
        out = {}
        for k, v in doc.items():
            out[k] = _set(v, toks[1:], fn) if k == head else deep_copy(v)
        return out
    if isinstance(doc, list):
        i = rptr.canonical_index(head)
        if i is None or i >= len(doc):
            raise PatchError("missing element %r" % head)
        return [(_set(v, toks[1:], fn) if j == i else deep_copy(v)) for j, v in enumerate(doc)]
    raise PatchError("cannot step into a scalar")


def add(doc, toks, value, mode="add"):
    value = deep_copy(value)
    if not toks:
        return value
    last = toks[-1]

    def at_parent(parent):
        if isinstance(parent, dict):
            if mode == "addne" and last in parent:
                return deep_copy(parent)
            out = {k: deep_copy(v) for k, v in parent.items()}
            out[last] = value  # existing member keeps its position, new member goes last
            return out
        if isinstance(parent, list):
            if last == "-":
                return [deep_copy(v) for v in parent] + [value]
            i = rptr.canonical_index(last)
            if i is None:
                # not an array index at all ('01', 'x', '#0'): nothing for addap to "fail to resolve" - as for add
                raise PatchError("not an array index %r" % last)
            if i > len(parent):
                if mode == "addap":
                    return [deep_copy(v) for v in parent] + [value]
                raise PatchError("bad array index %r" % last)
            cp = [deep_copy(v) for v in parent]
            return cp[:i] + [value] + cp[i:]
        raise PatchError("add into a scalar")

    return _set(doc, toks[:-1], at_parent)


def remove(doc, toks):
    if not toks:
        raise PatchError("remove root")
    last = toks[-1]

    def at_parent(parent):
        if isinstance(parent, dict):
            if last not in parent:
                raise PatchError("missing member")
            return {k: deep_copy(v) for k, v in parent.items() if k != last}
        if isinstance(parent, list):
            i = rptr.canonical_index(last)
            if i is None or i >= len(parent):
                raise PatchError("missing element")
            return [deep_copy(v) for j, v in enumerate(parent) if j != i]
        raise PatchError("remove from a scalar")

    return _set(doc, toks[:-1], at_parent)


def replace(doc, toks, value):
    _get(doc, toks)
    if not toks:
        return deep_copy(value)
    return _set(doc, toks, lambda _old: deep_copy(value))


def move(doc, frm, toks):
    val = _get(doc, frm)
    if len(toks) > len(frm) and toks[:len(frm)] == frm:
        raise PatchError("move into own child")
    if frm == toks:
        return deep_copy(doc)
    return add(remove(doc, frm), toks, val)


def copy(doc, frm, toks):
    return add(doc, toks, _get(doc, frm))


def test(doc, toks, value):
    got = _get(doc, toks)
    if not jeq(got, value):
        raise TestFailure("test failed")
    return deep_copy(doc)


def apply_op(doc, op):
    """op is a dict in RFC 6902 form with parsed-able pointers."""
    name = op["op"]
    toks = rptr.parse(op["path"])
    if name in ("add", "addne", "addap"):
        return add(doc, toks, op["value"], mode=name)
    if name == "remove":
        return remove(doc, toks)
    if name == "replace":
        return replace(doc, toks, op["value"])
    if name == "move":
        return move(doc, rptr.parse(op["from"]), toks)
    if name == "copy":
        return copy(doc, rptr.parse(op["from"]), toks)
    if name == "test":
        return test(doc, toks, op["value"])
    raise PatchError("unknown op")


def apply(doc, ops):
    cur = deep_copy(doc)
    for op in ops:
        cur = apply_op(cur, op)
    return cur


def selftest():
    from ..jsonutil import jeq_ordered

    n = 0

    def ok(doc, ops, exp):
        nonlocal n
        got = apply(doc, ops)
        assert jeq(got, exp), (doc, ops, got, exp)
        n += 1

    def err(doc, ops, kind=PatchError):
        nonlocal n
        try:
            apply(doc, ops)
        except kind:
            n += 1
            return
        raise AssertionError((doc, ops))

    # RFC 6902 Appendix A
    ok({"foo": "bar"}, [{"op": "add", "path": "/baz", "value": "qux"}], {"baz": "qux", "foo": "bar"})
    ok({"foo": ["bar", "baz"]}, [{"op": "add", "path": "/foo/1", "value": "qux"}], {"foo": ["bar", "qux", "baz"]})
    ok({"baz": "qux", "foo": "bar"}, [{"op": "remove", "path": "/baz"}], {"foo": "bar"})
    ok({"foo": ["bar", "qux", "baz"]}, [{"op": "remove", "path": "/foo/1"}], {"foo": ["bar", "baz"]})
    ok({"baz": "qux", "foo": "bar"}, [{"op": "replace", "path": "/baz", "value": "boo"}], {"baz": "boo", "foo": "bar"})
    ok({"foo": {"bar": "baz", "waldo": "fred"}, "qux": {"corge": "grault"}},
       [{"op": "move", "from": "/foo/waldo", "path": "/qux/thud"}],
       {"foo": {"bar": "baz"}, "qux": {"corge": "grault", "thud": "fred"}})
    ok({"foo": ["all", "grass", "cows", "eat"]}, [{"op": "move", "from": "/foo/1", "path": "/foo/3"}],
       {"foo": ["all", "cows", "eat", "grass"]})
    ok({"baz": "qux", "foo": ["a", 2, "c"]},
       [{"op": "test", "path": "/baz", "value": "qux"}, {"op": "test", "path": "/foo/1", "value": 2}],
       {"baz": "qux", "foo": ["a", 2, "c"]})
    err({"baz": "qux"}, [{"op": "test", "path": "/baz", "value": "bar"}], TestFailure)
    ok({"foo": "bar"}, [{"op": "add", "path": "/child", "value": {"grandchild": {}}}],
       {"foo": "bar", "child": {"grandchild": {}}})
    err({"foo": "bar"}, [{"op": "add", "path": "/baz/bat", "value": "qux"}])
    ok({"/": 9, "~1": 10}, [{"op": "test", "path": "/~01", "value": 10}], {"/": 9, "~1": 10})
    err({"/": 9, "~1": 10}, [{"op": "test", "path": "/~01", "value": "10"}], TestFailure)
    ok({"foo": ["bar"]}, [{"op": "add", "path": "/foo/-", "value": ["abc", "def"]}], {"foo": ["bar", ["abc", "def"]]})
    # section 4 details
    ok([1, 2], [{"op": "add", "path": "/2", "value": 3}], [1, 2, 3])
    err([1, 2], [{"op": "add", "path": "/3", "value": 3}])
    err([1, 2], [{"op": "add", "path": "/01", "value": 3}])
    ok({"a": 1}, [{"op": "add", "path": "", "value": [0]}], [0])
    ok({"a": {"b": 1}}, [{"op": "copy", "from": "/a", "path": "/a/c"}], {"a": {"b": 1, "c": {"b": 1}}})
    err({"a": {"b": 1}}, [{"op": "move", "from": "/a", "path": "/a/c"}])
    ok({"a": [1, 2]}, [{"op": "move", "from": "/a/0", "path": "/a/-"}], {"a": [2, 1]})
    ok({"a": [1, 2]}, [{"op": "copy", "from": "/a/0", "path": "/a/2"}], {"a": [1, 2, 1]})
    err({"a": [1, 2]}, [{"op": "copy", "from": "/a/0", "path": "/a/3"}])
    ok({"1": "x"}, [{"op": "replace", "path": "/1", "value": "y"}], {"1": "y"})
    ok({"a": {}}, [{"op": "add", "path": "/a/1", "value": "y"}], {"a": {"1": "y"}})
    err({"a": 1}, [{"op": "test", "path": "/a", "value": True}], TestFailure)
    err({"a": [1]}, [{"op": "test", "path": "/a", "value": [True]}], TestFailure)
    err({"a": 1}, [{"op": "test", "path": "/b", "value": 1}])
    err({"a": 1}, [{"op": "replace", "path": "/b", "value": 1}])
    err({"a": 1}, [{"op": "remove", "path": "/b"}])
    ok({"a": 1}, [{"op": "move", "from": "/a", "path": "/a"}], {"a": 1})
    # extensions
    ok({"a": 1}, [{"op": "addne", "path": "/a", "value": 2}], {"a": 1})
    ok({"a": 1}, [{"op": "addne", "path": "/b", "value": 2}], {"a": 1, "b": 2})
    err([1], [{"op": "addne", "path": "/5", "value": 2}])
    ok([1], [{"op": "addap", "path": "/5", "value": 2}], [1, 2])
    ok([1], [{"op": "addap", "path": "/0", "value": 2}], [2, 1])
    # functional: inputs never mutated / aliased
    d = {"a": [1, {"b": 2}]}
    v = {"x": []}
    r = apply(d, [{"op": "add", "path": "/a/-", "value": v}, {"op": "add", "path": "/a/2/x/-", "value": 1}])
    assert d == {"a": [1, {"b": 2}]} and v == {"x": []} and r == {"a": [1, {"b": 2}, {"x": [1]}]}
    n += 1
    assert jeq_ordered(add({"a": 1, "b": 2}, ["a"], 3), {"a": 3, "b": 2}); n += 1
    return n
