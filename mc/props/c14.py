"""C14 - JSON Pointer text, tokens and navigation operations are mutually consistent.

(R) round trip + construction routes + equality (dict trick and all-pairs) over all token
sequences up to a bound; (H) E-HIST over chains of join / '/' / parent.
"""
import itertools

from ..gen.alpha import strings_upto
from ..ref import rptr
from .common import chunks

ID = "C14"
RULE = (
    "R: every token sequence (length<=2, thorough 3) over all tokens of length<=2 (3) from a 12-character pointer alphabet "
    "plus look-alikes is built by six routes (parse, from_parts(str), from_parts(int for canonical indices), join chain, "
    "'/' chain, parent of an extension); printing must give the RFC 6901 spelling; all pointers are inserted into one dict "
    "keyed by the pointer object: a hit with a different token sequence is a conflation, a miss for the same sequence "
    "is an inconsistency; plus a true all-pairs sweep on the <=1-character token space. H: every chain of "
    "join/'/'/parent/replace letters up to the depth bound from 5 start pointers, checked step by step against the token-list model "
    "(text, equality, parent, is_relative_to, resolution on a synthesised document). "
    "state = distinct (route, token sequence) or chain; non-trivial = at least one token"
)
ASSUMPTIONS = [
    "scope as stated: no backslashes, no leading blanks in pointer text or joined parts",
    "reference model mc/ref/rptr.py (token lists), self-tested on RFC 6901 section 5",
    "integers beyond the index limit are not generated",
]

SIGMA_P = ["~", "/", "0", "1", "+", "-", " ", "#", "a", "é", "_", "１"]
LOOK = ["01", "00", "-0", "-1", "+1", "1_0", "1 ", "1e1", "1.0", "10", "12", "~0", "~1", "~01", "~2", "#a", "#0", "~a",
        "a/b", "a~b", "%41", "%2F", "𝄞", "null", "true", "0x1", "٣", "1 0", "a b",
        "9007199254740991", "-9007199254740991", "1\n", "0\n", "-7\n", "a\n", "a\t", "\na",
        # a token that starts with U+FEFF (a byte-order mark only at the start of a decoded *text*, never inside a token)
        "\ufeffa", "\ufeff", "a\ufeff", "\ufffe",
        # one character per class of a byte-wise escape decoder: raw C1 controls, the last Latin-1 character, and characters
        # above U+00FF that a single-byte Windows code page can spell (a decoder that passes through one would mangle them)
        "\x80", "\x9f", "\xff", "\u20ac", "\u0152", "\u201ca", "1\u20ac"]


def tokens(n):
    seen = set()
    out = []
    for t in strings_upto(n, SIGMA_P) + LOOK:
        if t not in seen:
            seen.add(t)
            out.append(t)
    return out


def selftest():
    return rptr.selftest()


def bounds(tier, seed):
    return {"token_len": 2 if tier == "quick" else 3, "seq_len": 2 if tier == "quick" else 3,
            "chain_depth": 3 if tier == "quick" else 4}


def plan(tier, seed):
    shards = []
    t2 = tokens(2)
    for part in chunks(list(range(len(t2))), 12):
        shards.append(("R2", part[0], part[-1] + 1))
    shards.append(("PAIRS",))
    t1 = tokens(1)
    if tier == "thorough":
        for i in range(len(t1)):
            shards.append(("R3", i))
        t3 = tokens(3)
        for part in chunks(list(range(len(t3))), 100):
            shards.append(("R3tok", part[0], part[-1] + 1))
    depth = 3 if tier == "quick" else 4
    for si in range(len(STARTS)):
        for li in range(len(letters())):
            shards.append(("H", si, li, depth))
    if tier == "quick":
        # one complete depth-4 block chosen by the seed
        nl = len(letters())
        shards.append(("H2", seed % len(STARTS), seed % nl, (seed // nl) % nl, 4))
    return shards


def _lstrip_safe(t):
    return not (t[:1] in (" ", "\t", "\n", "\r"))


def routes(ts):
    """Build the pointer with token sequence ts by every construction route."""
    from jsonpath import JSONPointer

    text = rptr.encode(ts)
    out = [("parse", JSONPointer(text)), ("parse.noesc", JSONPointer(text, unicode_escape=False)),
           ("from_parts.str", JSONPointer.from_parts(list(ts)))]
    mixed = [rptr.canonical_index(t) if rptr.canonical_index(t) is not None else t for t in ts]
    if any(isinstance(x, int) for x in mixed):
        out.append(("from_parts.int", JSONPointer.from_parts(mixed)))
    if all(_lstrip_safe(t) for t in ts):
        p = JSONPointer("")
        q = JSONPointer("")
        for t in ts:
            p = p.join(rptr.escape(t))
            q = q / rptr.escape(t)
        out.append(("join", p))
        out.append(("truediv", q))
        if ts:
            out.append(("join.multi", JSONPointer("").join("/".join(rptr.escape(t) for t in ts)) if ts[0] != "" or len(ts) == 1 else p))
            # several arguments in one call; and an absolute part in a later position replaces what came before
            out.append(("join.args", JSONPointer("").join(*[rptr.escape(t) for t in ts])))
            out.append(("join.args.absolute", JSONPointer("/zz").join("yy", "/" + rptr.escape(ts[0]), *[rptr.escape(t) for t in ts[1:]])))
    out.append(("parent", JSONPointer(rptr.encode(list(ts) + ["x"])).parent()))
    return text, out


def _check_seq(sub, ts, table, acc):
    from jsonpath import JSONPointer

    ts = list(ts)
    key = tuple(ts)
    try:
        text, rs = routes(ts)
    except Exception as e:  # noqa: BLE001
        acc.case(sub, key, outcome="exc")
        acc.violation(sub, "exception", {"tokens": ts}, expected="constructible", observed="%s: %s" % (type(e).__name__, e))
        return
    acc.case(sub, key, outcome=text, nontrivial=bool(ts), trans=len(rs))
    if acc.evals % 2000 == 1:
        acc.sample(sub, {"tokens": ts, "text": text, "routes": [r for r, _ in rs]})
    first = rs[0][1]
    for name, p in rs:
        acc.count("route." + name)
        if str(p) != text:
            acc.violation(sub, "print", {"tokens": ts, "route": name}, expected=text, observed=str(p))
            return
        if not (p == first) or hash(p) != hash(first) or (p != first):
            acc.violation(sub, "route-inequality", {"tokens": ts, "route": name}, expected="== parse route and same hash",
                          observed="eq=%r hash_eq=%r parts=%r vs %r" % (p == first, hash(p) == hash(first), p.parts, first.parts))
            return
        other = table.get(p)
        if other is None:
            if key in table.get("__keys__", ()):
                acc.violation(sub, "dict-miss", {"tokens": ts, "route": name}, expected="found under the same tokens", observed="miss")
                return
            table[p] = key
        elif other != key:
            acc.violation(sub, "conflation", {"tokens": ts, "other": list(other), "route": name},
                          expected="pointers with different token sequences are unequal", observed="%r == %r" % (text, rptr.encode(other)))
            return
    table.setdefault("__keys__", set()).add(key)
    # parse(print) is a fixed point and equal
    again = JSONPointer(str(first))
    if again != first or str(again) != text:
        acc.violation(sub, "reparse", {"tokens": ts}, expected=text, observed=str(again))


def run_shard(shard, acc):
    kind = shard[0]
    if kind == "R2":
        t2 = tokens(2)
        table = {}
        # every shard contains the complete space of short sequences so that a long token
        # conflated with a short one lands in the same dict
        t1 = tokens(1)
        _check_seq("R", [], table, acc)
        for t in t2:
            _check_seq("R", [t], table, acc)
        for a in t2[shard[1]:shard[2]]:
            for b in t2:
                _check_seq("R", [a, b], table, acc)
    elif kind == "R3":
        t1 = tokens(1)
        table = {}
        a = t1[shard[1]]
        for t in t1:
            _check_seq("R", [t], table, acc)
            for u in t1:
                _check_seq("R", [t, u], table, acc)
        for b in t1:
            for c in t1:
                _check_seq("R", [a, b, c], table, acc)
    elif kind == "R3tok":
        t3 = tokens(3)
        t1 = tokens(2)
        table = {}
        for t in t1:
            _check_seq("R", [t], table, acc)
        for a in t3[shard[1]:shard[2]]:
            if len(a) < 3:
                continue
            _check_seq("R", [a], table, acc)
            for b in ("", "0", "a", "~", a):
                _check_seq("R", [a, b], table, acc)
                _check_seq("R", [b, a], table, acc)
    elif kind == "PAIRS":
        from jsonpath import JSONPointer

        t1 = tokens(1)
        seqs = [[]] + [[t] for t in t1] + [[a, b] for a in t1[:14] for b in t1[:14]]
        def build(route, fn, ss):
            out = []
            for s_ in ss:
                try:
                    out.append((tuple(s_), fn(s_)))
                except Exception as e:  # noqa: BLE001
                    acc.violation("PAIRS", "refused." + route, {"left": list(s_), "right": list(s_)}, expected="a pointer",
                                  observed="%s: %s" % (type(e).__name__, e))
            return out

        ptrs = build("parse", lambda s_: JSONPointer(rptr.encode(s_)), seqs)
        alts = build("from_parts", lambda s_: JSONPointer.from_parts(list(s_)), seqs)
        for (ka, pa), (kb, pb) in itertools.product(ptrs, alts):
            eq = pa == pb
            acc.case("PAIRS", (ka, kb), outcome=eq, nontrivial=True)
            if eq != (ka == kb) or (eq and hash(pa) != hash(pb)):
                acc.violation("PAIRS", "equality", {"left": list(ka), "right": list(kb)},
                              expected=(ka == kb), observed="eq=%r hash_eq=%r" % (eq, hash(pa) == hash(pb)))
        # is_relative_to over all pairs (parsed x parsed): true exactly for proper token-sequence prefixes -
        # the token spaces contain string-prefix-related tokens ('1' vs '10', '~' vs '~0', 'a' vs 'a b') on purpose
        rel_seqs = [[]] + [[t] for t in t1] + [[a, b] for a in REL_TOKS for b in REL_TOKS] + \
                   [[a, b, c] for a in REL_TOKS[:6] for b in REL_TOKS[:6] for c in REL_TOKS[:6]]
        rptrs = build("parse", lambda s_: JSONPointer(rptr.encode(s_)), rel_seqs)
        for (ka, pa), (kb, pb) in itertools.product(rptrs, rptrs):
            want = len(kb) < len(ka) and ka[:len(kb)] == kb
            got = pa.is_relative_to(pb)
            acc.case("PAIRS", ("rel", ka, kb), outcome=want, nontrivial=want)
            if got != want:
                acc.violation("PAIRS", "is_relative_to", {"left": list(ka), "right": list(kb), "_kind": "is_relative_to"}, expected=want, observed=got)
        acc.count("pairs", 1)
        _bigtok(acc)
    elif kind == "H":
        _, si, li, depth = shard
        _chains(si, [li], depth, acc)
    elif kind == "H2":
        _, si, a, b, depth = shard
        _chains(si, [a, b], depth, acc)


def _bigtok(acc, only=None):
    from jsonpath import JSONPointer

    # a digits-only token beyond the index limit can be held by a pointer built from a token list (parsing such a
    # text is the documented construction-time error): join / parent / is_relative_to / printing work on tokens
    for big in ("9007199254740992", "-9007199254740992", "123456789012345678901234567890"):
        for pre, post in (([], []), (["a"], []), ([], ["a"]), (["a"], ["b", "0"])):
            toks = pre + [big] + post
            if only is not None and toks != only:
                continue
            bad = None
            try:
                p0 = JSONPointer.from_parts(list(toks), unicode_escape=False)
                if str(p0) != rptr.encode(toks):
                    bad = ("bigtok.print", rptr.encode(toks), str(p0))
                else:
                    par = p0.parent()
                    want = rptr.encode(toks[:-1])
                    if str(par) != want or not (par == JSONPointer.from_parts(toks[:-1], unicode_escape=False)):
                        bad = ("bigtok.parent", want, str(par))
                    elif toks[:-1] and not p0.is_relative_to(par):
                        bad = ("bigtok.is_relative_to", True, False)
                    else:
                        j = p0 / "x"
                        j2 = p0.join("x")
                        if str(j) != rptr.encode(toks + ["x"]) or str(j2) != str(j) or str(j.parent()) != str(p0):
                            bad = ("bigtok.join", rptr.encode(toks + ["x"]), "%s / parent %s" % (j, j.parent()))
            except Exception as e:  # noqa: BLE001
                bad = ("bigtok.exception", "no exception", "%s: %s" % (type(e).__name__, e))
            acc.case("PAIRS", ("bigtok", tuple(toks)), outcome=rptr.encode(toks), nontrivial=True)
            if bad:
                acc.violation("PAIRS", bad[0], {"left": list(toks), "right": list(toks), "_kind": "bigtok"}, expected=bad[1], observed=bad[2])


REL_TOKS = ["a", "ab", "1", "10", "", "~", "~0", "/", "a b", "0", "01", "-"]
STARTS = [[], ["a"], ["0"], ["~", "/"], ["é", ""]]
JOIN_TOKS = ["a", "0", "1", "", "~", "/", "-", "+1", "01", "#", "é", "１", "a b", "~1"]


def letters():
    out = []
    for t in JOIN_TOKS:
        out.append(("join", t))
    for t in ("a", "0", "", "~", "/"):
        out.append(("div", t))
    out.append(("parent", None))
    out.append(("replace", ["x", "0"]))
    out.append(("multi", ["a", "0"]))
    out.append(("args-absolute", ["x", "0"]))
    return out


def _model_step(ts, letter):
    op, arg = letter
    if op in ("join", "div"):
        return ts + [arg]
    if op == "parent":
        return ts[:-1]
    if op in ("replace", "args-absolute"):
        return list(arg)
    if op == "multi":
        return ts + list(arg)
    raise ValueError(op)


def _chains(si, prefix, depth, acc):
    ls = letters()

    def rec(hist):
        _run_chain(si, hist, acc)
        if len(hist) >= depth:
            return
        for li in range(len(ls)):
            hist.append(li)
            rec(hist)
            hist.pop()

    rec(list(prefix))


def _synth(ts):
    """A document containing the path ts (arrays where the token is a small canonical index)."""
    leaf = ["LEAF"]
    doc = leaf
    for t in reversed(ts):
        i = rptr.canonical_index(t)
        if i is not None and i <= 12:
            arr = [None] * i + [doc]
            doc = arr
        else:
            doc = {t: doc, "other": 0}
    return doc, leaf


def _run_chain(si, hist, acc, record=True):
    from jsonpath import JSONPointer

    ls = letters()
    ts = list(STARTS[si])
    p = JSONPointer(rptr.encode(ts))
    bad = None
    for step_i, li in enumerate(hist):
        letter = ls[li]
        op, arg = letter
        old_p, old_ts = p, ts
        ts = _model_step(ts, letter)
        try:
            if op == "join":
                p = p.join(rptr.escape(arg))
            elif op == "div":
                p = p / rptr.escape(arg)
            elif op == "parent":
                p = p.parent()
            elif op == "replace":
                p = p.join(rptr.encode(arg))
            elif op == "multi":
                p = p.join("/".join(rptr.escape(t) for t in arg))
            elif op == "args-absolute":
                p = p.join("q", "/" + rptr.escape(arg[0]), *[rptr.escape(t) for t in arg[1:]])
            text = rptr.encode(ts)
            if str(p) != text:
                bad = ("text", text, str(p))
            elif not (p == JSONPointer(text)) or hash(p) != hash(JSONPointer(text)):
                bad = ("eq-parse", text, "parts=%r vs %r" % (p.parts, JSONPointer(text).parts))
            elif op in ("join", "div"):
                if not (p.parent() == old_p):
                    bad = ("parent-of-join", str(old_p), str(p.parent()))
                elif not p.is_relative_to(old_p):
                    bad = ("relative", True, False)
                elif old_p.is_relative_to(p) or p.is_relative_to(p):
                    bad = ("relative-converse", False, True)
                elif str(p) != str(old_p) + "/" + rptr.escape(arg):
                    bad = ("text-append", str(old_p) + "/" + rptr.escape(arg), str(p))
            elif op == "parent" and not old_ts:
                if not (p == old_p) or str(p) != "":
                    bad = ("root-parent", "", str(p))
            if bad is None:
                doc, leaf = _synth(ts)
                got = p.resolve(doc)
                if got is not leaf:
                    bad = ("resolve", "the synthesised leaf", repr(got)[:80])
                elif op in ("join", "div"):
                    via = rptr.step(old_p.resolve(doc), arg)
                    if via is not got:
                        bad = ("resolve-step", "resolve(p) then step(t)", repr(via)[:80])
        except Exception as e:  # noqa: BLE001
            bad = ("exception", "no exception", "%s: %s" % (type(e).__name__, e))
        if record:
            acc.count("letter." + op)
        if bad:
            bad = ("step%d.%s" % (step_i, bad[0]), bad[1], bad[2])
            break
    case = {"start": si, "history": list(hist)}
    if record:
        acc.case("H", (si, tuple(hist)), outcome=tuple(ts), nontrivial=bool(hist), trans=len(hist))
        if acc.evals % 3000 == 1:
            acc.sample("H", {"start": STARTS[si], "letters": [list(map(str, ls[i])) for i in hist], "tokens": ts})
    if bad:
        acc.violation("H", bad[0].split(".", 1)[1], case, expected=bad[1], observed=bad[2],
                      note=" ; ".join("%s %r" % ls[i] for i in hist))


REQUIRE = {"route.parse": 1000, "route.from_parts.str": 1000, "route.from_parts.int": 100, "route.join": 500,
           "route.truediv": 500, "route.parent": 1000, "pairs": 1, "letter.join": 100, "letter.div": 100,
           "letter.parent": 100, "letter.replace": 10, "letter.multi": 10, "letter.args-absolute": 10, "route.join.args": 500}


def check_case(sub, case, acc):
    if sub == "H":
        _run_chain(case["start"], case["history"], acc, record=False)
    elif sub == "PAIRS":
        from jsonpath import JSONPointer

        ka, kb = case["left"], case["right"]
        try:
            JSONPointer(rptr.encode(ka)), JSONPointer.from_parts(list(kb)), JSONPointer(rptr.encode(kb))
        except Exception as e:  # noqa: BLE001
            acc.violation("PAIRS", "refused.parse", case, expected="a pointer", observed="%s: %s" % (type(e).__name__, e))
            return
        if v_kind(case) == "bigtok":
            _bigtok(acc, only=list(ka))
            return
        if v_kind(case) == "is_relative_to":
            pa, pb = JSONPointer(rptr.encode(ka)), JSONPointer(rptr.encode(kb))
            want = len(kb) < len(ka) and ka[:len(kb)] == kb
            if pa.is_relative_to(pb) != want:
                acc.violation("PAIRS", "is_relative_to", case, expected=want, observed=not want)
            return
        pa, pb = JSONPointer(rptr.encode(ka)), JSONPointer.from_parts(list(kb))
        eq = pa == pb
        if eq != (ka == kb) or (eq and hash(pa) != hash(pb)):
            acc.violation("PAIRS", "equality", case, expected=(ka == kb), observed="eq=%r" % eq)
    else:
        table = {}
        if case.get("other") is not None:
            _check_seq(sub, case["other"], table, acc)
        _check_seq(sub, case["tokens"], table, acc)


def v_kind(case):
    return case.get("_kind")


def shrink(sub, case):
    if sub == "H":
        h = case["history"]
        for i in range(len(h)):
            yield {"start": case["start"], "history": h[:i] + h[i + 1:]}
        if case["start"] != 0:
            yield {"start": 0, "history": h}
    elif sub == "R":
        ts = case["tokens"]
        for i in range(len(ts)):
            c = dict(case)
            c["tokens"] = ts[:i] + ts[i + 1:]
            if case.get("other") is not None and len(case["other"]) == len(ts):
                c["other"] = case["other"][:i] + case["other"][i + 1:]
            yield c


def _tc(t):
    from .c04 import _tok_class
    return _tok_class(t)


def signature(sub, case, v):
    if sub == "H":
        ls = letters()
        ops = [ls[i][0] + ("(%s)" % _tc(ls[i][1]) if isinstance(ls[i][1], str) else "") for i in case["history"]]
        return "C14.H.%s.%s" % (v["kind"], "-".join(ops))
    if sub == "PAIRS":
        return "C14.PAIRS.%s.%s~%s" % (v["kind"], "/".join(map(_tc, case["left"])), "/".join(map(_tc, case["right"])))
    return "C14.R.%s.%s.%s" % (v["kind"], case.get("route", "-"), "/".join(map(_tc, case["tokens"])))
