"""Speller: render query ASTs (mc.ref.rpath / rfilter) to text in every surface form
the RFC 9535 ABNF allows.  A rendering is a list of pieces:
   str               fixed text
   SP                an optional-blank position (ABNF `S`)
   ("alt", [alts])   a lexical choice; each alternative is itself a list of pieces
`default(pieces)` gives the plain spelling; `spellings(pieces, max_blanks, ...)`
enumerates the product of lexical choices x blank placements (<= max_blanks blanks).
"""
import itertools
import re

SP = ("S",)
BLANKS = (" ", "\t", "\n", "\r")

# RFC 9535: member-name-shorthand = name-first *name-char
_NAME_FIRST = r"A-Za-z_\u0080-\ud7ff\ue000-\U0010ffff"
RE_SHORTHAND = re.compile("[%s][%s0-9]*\\Z" % (_NAME_FIRST, _NAME_FIRST))

RESERVED = {
    "and", "or", "not", "in", "contains", "true", "True", "false", "False", "nil", "Nil",
    "null", "Null", "none", "None", "undefined", "missing",
}


def shorthand_ok(name):
    return bool(RE_SHORTHAND.match(name))


_SHORT = {"\b": "\\b", "\f": "\\f", "\n": "\\n", "\r": "\\r", "\t": "\\t"}


def _u(ch):
    cp = ord(ch)
    if cp > 0xFFFF:
        cp -= 0x10000
        return "\\u%04x\\u%04x" % (0xD800 + (cp >> 10), 0xDC00 + (cp & 0x3FF))
    return "\\u%04x" % cp


def quote(s, q="'", style="min"):
    """An RFC 9535 string literal for s.  style: min | u (all \\uXXXX) | alt (\\/ and \\uXXXX for controls)."""
    out = []
    for ch in s:
        if style == "u":
            out.append(_u(ch))
        elif ch == q:
            out.append("\\" + ch)
        elif ch == "\\":
            out.append("\\\\")
        elif ord(ch) < 0x20:
            out.append(_SHORT[ch] if (style == "min" and ch in _SHORT) else _u(ch))
        elif ch == "/" and style == "alt":
            out.append("\\/")
        else:
            out.append(ch)
    return q + "".join(out) + q


def string_alts(s, full=True):
    """All distinct spellings of a string literal (list of strings), simplest first."""
    alts = [quote(s, "'", "min"), quote(s, '"', "min")]
    if full:
        for cand in (quote(s, '"', "u"), quote(s, "'", "alt"), quote(s, "'", "u")):
            if cand not in alts:
                alts.append(cand)
    return alts


def number(v):
    if isinstance(v, bool):
        raise ValueError
    if isinstance(v, int):
        return str(v)
    r = repr(v)
    if "inf" in r or "nan" in r:
        raise ValueError(v)
    return r


def literal(v, full=False, o=None):
    if v is None:
        return [o.lits[None] if o else "null"]
    if v is True:
        return [o.lits[True] if o else "true"]
    if v is False:
        return [o.lits[False] if o else "false"]
    if isinstance(v, str):
        return [("alt", [[a] for a in string_alts(v, full)])]
    return [number(v)]


class Opts:
    """Spelling options. ext=True enables non-standard surface forms (C13/C17)."""

    def __init__(self, full_strings=True, tokens=None, words=None):
        self.full_strings = full_strings
        self.tok = {"$": "$", "@": "@", "^": "^", "_": "_", "#": "#", "~": "~"}
        if tokens:
            self.tok.update(tokens)
        self.words = {"and": "&&", "or": "||", "not": "!", "ne": "!="}
        if words:
            self.words.update(words)
        self.lits = {None: "null", True: "true", False: "false"}
        self.bare = False


DEFAULT = Opts()


def selector(sel, o):
    k = sel[0]
    if k == "name":
        if o.bare and shorthand_ok(sel[1]) and sel[1] not in RESERVED:
            return [sel[1]]
        return [("alt", [[a] for a in string_alts(sel[1], o.full_strings)])]
    if k == "index":
        return [str(sel[1])]
    if k == "slice":
        a, b, c = sel[1:]
        A = "" if a is None else str(a)
        B = "" if b is None else str(b)
        if c is None:
            return [A, SP, ":", SP, B, ("alt", [[], [SP, ":"]])]
        return [A, SP, ":", SP, B, SP, ":", SP, str(c)]
    if k == "wild":
        return ["*"]
    if k == "keys":
        return [o.tok["~"]]
    if k == "filter":
        return ["?", SP] + expr(sel[1], o, 0)
    raise ValueError(sel)


def bracket(sels, o):
    out = ["[", SP]
    for i, s in enumerate(sels):
        if i:
            out += [SP, ",", SP]
        out += selector(s, o)
    out += [SP, "]"]
    return out


def segment(seg, o, desc_shorthand_reserved=False):
    kind, sels = seg
    alts = []
    if len(sels) == 1:
        s = sels[0]
        if s[0] == "name" and shorthand_ok(s[1]):
            if kind == "child":
                alts.append(["." + s[1]])
            elif desc_shorthand_reserved or s[1] not in RESERVED:
                alts.append([".." + s[1]])
        if s[0] == "wild":
            alts.append([".*" if kind == "child" else "..*"])
        if s[0] == "keys":
            alts.append([("." if kind == "child" else "..") + o.tok["~"]])
    b = bracket(sels, o)
    alts.append(b if kind == "child" else [".."] + b)
    if len(alts) == 1:
        return alts[0]
    return [("alt", alts)]


def query(q, o=DEFAULT):
    _, root, segs = q
    out = [o.tok[root]]
    for seg in segs:
        out.append(SP)
        out += segment(seg, o)
    return out


# precedence: 0 lowest (filter / paren body), 1 or-operand, 2 and-operand, 3 not-operand
def expr(e, o, ctx):
    k = e[0]
    if k == "or":
        body = expr(e[1], o, 1) + _word(o.words["or"]) + expr(e[2], o, 1)
        return _wrap(body) if ctx >= 2 else body
    if k == "and":
        body = expr(e[1], o, 2) + _word(o.words["and"]) + expr(e[2], o, 2)
        return _wrap(body) if ctx >= 3 else body
    if k == "not":
        inner = e[1]
        nt = [o.words["not"] + " "] if o.words["not"][0].isalpha() else [o.words["not"], SP]
        if inner[0] in ("test", "call", "paren", "littest"):
            return nt + expr(inner, o, 3)
        return nt + _wrap(expr(inner, o, 0))
    if k == "paren":
        return _wrap(expr(e[1], o, 0))
    if k == "cmp":
        op = e[1]
        if op == "!=":
            op = o.words["ne"]
        body = comparable(e[2], o) + _word(op) + comparable(e[3], o)
        return _wrap(body) if ctx >= 3 else body
    if k == "test":
        return query(e[1], o)
    if k == "call":
        return call(e, o)
    if k == "littest":
        return literal(e[1], False)
    raise ValueError(e)


def _word(w):
    """An infix operator: word operators need blanks around them, symbolic ones may have them."""
    if w[0].isalpha():
        return [" " + w + " "]
    return [SP, w, SP]


def _wrap(body):
    return ["(", SP] + body + [SP, ")"]


def call(e, o):
    out = [e[1] + "(", SP]
    for i, a in enumerate(e[2]):
        if i:
            out += [SP, ",", SP]
        out += argument(a, o)
    out += [SP, ")"]
    return out


def argument(a, o):
    if a[0] in ("lit", "q", "call", "key", "undef", "list", "re"):
        return comparable(a, o)
    return expr(a, o, 0)


def comparable(c, o):
    k = c[0]
    if k == "lit":
        return literal(c[1], o.full_strings, o)
    if k == "q":
        return query(c[1], o)
    if k == "call":
        return call(c, o)
    if k == "key":
        return [o.tok["#"]]
    if k == "undef":
        return [c[1] if len(c) > 1 else "undefined"]
    if k == "re":
        return ["/" + c[1] + "/" + c[2]]
    if k == "list":
        out = ["["]
        for i, v in enumerate(c[1]):
            if i:
                out += [",", " "]
            out += [literal(v, False)[0] if not isinstance(v, str) else quote(v)]
        return out + ["]"]
    raise ValueError(c)


# ----------------------------------------------------------------------------
# enumeration


def _flatten(pieces, all_alts):
    """Yield flat piece lists (str and SP only) for every combination of lexical choices."""
    if not all_alts:
        out = []
        stack = list(reversed(pieces))
        while stack:
            p = stack.pop()
            if isinstance(p, tuple) and p[0] == "alt":
                stack.extend(reversed(p[1][0]))
            else:
                out.append(p)
        yield out
        return
    options = []
    for p in pieces:
        if isinstance(p, tuple) and p[0] == "alt":
            sub = []
            for a in p[1]:
                sub.extend(_flatten(a, True))
            options.append(sub)
        else:
            options.append([[p]])
    for combo in itertools.product(*options):
        out = []
        for c in combo:
            out.extend(c)
        yield out


def default(pieces):
    flat = next(_flatten(pieces, False))
    return "".join(p for p in flat if p is not SP)


def spellings(pieces, max_blanks=0, all_alts=True, blanks=BLANKS):
    """Every spelling: lexical choices (all or default) x placements of <= max_blanks blanks."""
    for flat in _flatten(pieces, all_alts):
        slots = [i for i, p in enumerate(flat) if p is SP]
        base = [("" if p is SP else p) for p in flat]
        yield "".join(base)
        for nb in range(1, max_blanks + 1):
            for pos in itertools.combinations(slots, nb):
                for chars in itertools.product(blanks, repeat=nb):
                    cur = list(base)
                    for i, ch in zip(pos, chars):
                        cur[i] = ch
                    yield "".join(cur)


def text(q, o=DEFAULT):
    return default(query(q, o))
