"""Reference model of RFC 6901 JSON Pointer and of the Relative JSON Pointer draft.
Uses nothing from jsonpath.*, no int(), no codecs.
"""


class CannotEvaluate(Exception):
    pass


class SyntaxErr(Exception):
    pass


def parse(text):
    """RFC 6901 section 3: '' or ('/' reference-token)*;  '~1' -> '/', then '~0' -> '~'."""
    if text == "":
        return []
    if text[0] != "/":
        raise SyntaxErr("pointer must be empty or start with '/'")
    toks = []
    cur = []
    i = 1
    n = len(text)
    while i <= n:
        if i == n or text[i] == "/":
            toks.append("".join(cur))
            cur = []
            i += 1
            continue
        ch = text[i]
        if ch == "~" and i + 1 < n and text[i + 1] == "1":
            cur.append("/")
            i += 2
        elif ch == "~" and i + 1 < n and text[i + 1] == "0":
            cur.append("~")
            i += 2
        else:
            cur.append(ch)
            i += 1
    return toks


def escape(tok):
    out = []
    for ch in tok:
        if ch == "~":
            out.append("~0")
        elif ch == "/":
            out.append("~1")
        else:
            out.append(ch)
    return "".join(out)


def encode(tokens):
    return "".join("/" + escape(str(t) if not isinstance(t, str) else t) for t in tokens)


_DIGITS = "0123456789"


def canonical_index(tok):
    """The array index denoted by tok per RFC 6901 section 4 (0 | [1-9][0-9]*), else None."""
    if tok == "":
        return None
    for ch in tok:
        if ch not in _DIGITS:
            return None
    if len(tok) > 1 and tok[0] == "0":
        return None
    v = 0
    for ch in tok:
        v = v * 10 + _DIGITS.index(ch)
    return v


def step(value, tok):
    if isinstance(value, dict):
        if tok in value:
            return value[tok]
        raise CannotEvaluate("no member %r" % tok)
    if isinstance(value, list):
        i = canonical_index(tok)
        if i is None or i >= len(value):
            raise CannotEvaluate("no element %r" % tok)
        return value[i]
    raise CannotEvaluate("cannot step into a %s" % type(value).__name__)


def resolve(doc, tokens):
    cur = doc
    for t in tokens:
        cur = step(cur, t)
    return cur


def loc_tokens(loc):
    """Location tuple (str keys, int indices) -> reference tokens."""
    return [t if isinstance(t, str) else _dec(t) for t in loc]


def _dec(i):
    if i == 0:
        return "0"
    neg = i < 0
    if neg:
        i = -i
    s = ""
    while i:
        s = _DIGITS[i % 10] + s
        i //= 10
    return ("-" if neg else "") + s


# ----------------------------------------------------------------------------
# Relative JSON Pointer (draft-hha-relative-json-pointer / draft-bhutton-relative-json-pointer)


class RelForbidden(Exception):
    pass


def rel_parse(text):
    """-> (steps, offset, suffix) where suffix is '#' or a list of tokens. Raises SyntaxErr."""
    i = 0
    n = len(text)
    j = i
    while j < n and text[j] in _DIGITS:
        j += 1
    if j == i:
        raise SyntaxErr("no step count")
    steps_s = text[i:j]
    if len(steps_s) > 1 and steps_s[0] == "0":
        raise SyntaxErr("leading zero")
    steps = canonical_index(steps_s)
    offset = 0
    if j < n and text[j] in "+-":
        sign = text[j]
        k = j + 1
        while k < n and text[k] in _DIGITS:
            k += 1
        if k == j + 1:
            raise SyntaxErr("sign without digits")
        off_s = text[j + 1:k]
        if off_s[0] == "0":
            raise SyntaxErr("zero or leading-zero offset")
        offset = canonical_index(off_s)
        if sign == "-":
            offset = -offset
        j = k
    rest = text[j:]
    if rest == "#":
        return steps, offset, "#"
    return steps, offset, parse(rest)


def rel_apply(base_tokens, steps, offset, suffix):
    """-> ('ptr', tokens) | ('key', tokens_of_parent_location, last_token).  Raises RelForbidden."""
    toks = list(base_tokens)
    if steps > len(toks):
        raise RelForbidden("more steps than tokens")
    if steps:
        toks = toks[:len(toks) - steps]
    if offset:
        if not toks:
            raise RelForbidden("offset at the root")
        i = canonical_index(toks[-1])
        if i is None:
            raise RelForbidden("offset on a non-index token")
        if i + offset < 0:
            raise RelForbidden("negative index")
        toks[-1] = _dec(i + offset)
    if suffix == "#":
        if not toks:
            raise RelForbidden("# at the root")
        return ("key", toks)
    return ("ptr", toks + list(suffix))


def selftest():
    n = 0
    # RFC 6901 section 5
    doc = {"foo": ["bar", "baz"], "": 0, "a/b": 1, "c%d": 2, "e^f": 3, "g|h": 4, "i\\j": 5, "k\"l": 6, " ": 7, "m~n": 8}
    table = [("", doc), ("/foo", ["bar", "baz"]), ("/foo/0", "bar"), ("/", 0), ("/a~1b", 1), ("/c%d", 2), ("/e^f", 3),
             ("/g|h", 4), ("/i\\j", 5), ("/k\"l", 6), ("/ ", 7), ("/m~0n", 8)]
    for p, exp in table:
        assert resolve(doc, parse(p)) == exp, p
        assert encode(parse(p)) == p
        n += 1
    assert parse("/~01") == ["~1"] and encode(["~1"]) == "/~01"; n += 1
    for bad in ("/foo/2", "/foo/-", "/foo/01", "/foo/+1", "/foo/ 1", "/foo/1_0", "/foo/0/0", "/nope", "/foo/-1", "//0"):
        try:
            resolve(doc, parse(bad))
            raise AssertionError(bad)
        except CannotEvaluate:
            n += 1
    try:
        parse("a")
        raise AssertionError
    except SyntaxErr:
        n += 1
    # Relative JSON Pointer draft, section 5.1: {"foo": ["bar", "baz", "biz"], "highly": {"nested": {"objects": true}}}
    # starting from "/foo/1"
    base = ["foo", "1"]
    ex = [("0", ("ptr", ["foo", "1"])), ("1/0", ("ptr", ["foo", "0"])), ("0-1", ("ptr", ["foo", "0"])),
          ("2/highly/nested/objects", ("ptr", ["highly", "nested", "objects"])), ("0#", ("key", ["foo", "1"])),
          ("0+1#", ("key", ["foo", "2"])), ("1#", ("key", ["foo"])), ("0+1", ("ptr", ["foo", "2"]))]
    for t, exp in ex:
        assert rel_apply(base, *rel_parse(t)) == exp, (t, rel_apply(base, *rel_parse(t)))
        n += 1
    # starting from "/highly/nested"
    base = ["highly", "nested"]
    for t, exp in [("0/objects", ("ptr", ["highly", "nested", "objects"])), ("1/nested/objects", ("ptr", ["highly", "nested", "objects"])),
                   ("2/foo/0", ("ptr", ["foo", "0"])), ("0#", ("key", ["highly", "nested"])), ("1#", ("key", ["highly"]))]:
        assert rel_apply(base, *rel_parse(t)) == exp, t
        n += 1
    for t in ("3", "0-5", "2#"):
        try:
            rel_apply(["foo", "1"], *rel_parse(t))
            raise AssertionError(t)
        except RelForbidden:
            n += 1
    for t in ("01", "0+0", "0-0", "0+01", "+1", "", "0+", "a"):
        try:
            rel_parse(t)
            raise AssertionError(t)
        except SyntaxErr:
            n += 1
    assert rel_parse("0+10/a") == (0, 10, ["a"]) and rel_parse("10-12#") == (10, -12, "#"); n += 2
    return n
