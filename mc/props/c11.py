"""C11 - all query entry points agree with one another on every input."""
import io
import itertools
import json

from .. import univ
from ..jsonutil import ckey, jeq, jeq_list
from .common import chunks

ID = "C11"
RULE = (
    "10 simple queries (two with the fake root), 5 more whose filter refers to $ (alone and in 1-operator compounds) and every compound query with 1..3 union/intersection operators over them (8 + 128 + 2048 + 32768/8 "
    "sampled-free: 3-operator queries use the first 5 operands) x every array/object document of Univ(1,3) over leaves "
    "{2,'a',null} plus 24 nested documents; each evaluated through up to 23 entry points (env and compiled findall, finditer, match, "
    "query().values(), and the document given as JSON text, StringIO and BytesIO in UTF-8, UTF-8 with BOM, UTF-16 and UTF-32; queries reading the filter context get the caller's mapping through every one of them) and compared with the fold of the simple "
    "results (union = concatenation, intersection = left restricted to values produced by right, left to right). "
    "NEST: every (a op b) op c over 5 simple queries built with the CompoundJSONPath constructor around a compiled compound path "
    "and union()/intersection(), through 5 entry points. "
    "TXT: documents that are not containers (strings whose content looks like JSON text, numbers, null, true) can only be "
    "given as JSON text or files: 10 simple queries (6 with the fake root, 2 with $ in a filter) and their 1- and 2-operator "
    "compounds x 12 such texts x 10 entry points, against the fold of the simple results on the same text. "
    "state = distinct (query, document); non-trivial = non-empty expected result"
)
ASSUMPTIONS = [
    "a file argument is read when the query is applied (the caller may close it before consuming a lazy result)",
    "simple-query results are taken from the compiled simple query itself (its conformance is C01/C02's subject); the fold is the model",
    "intersection restricts to JSON values produced by the right operand: typed equality (true is not 1, 1 == 1.0)",
    "text/file forms only for array and object documents (as the property states)",
]

SIMPLE = ["$.a", "$.b", "^[?@.a]", "$[*]", "$[?@.a]", "^[0].b", "$..a", "$[0]", "$.*.a", "$[?@ == 2]"]
NESTED = [
    {"a": [2, "a"], "b": {"a": 2}}, {"a": {"a": {"a": 2}}, "b": 2}, [[2, "a"], {"a": 2}, 2], [{"a": 2}, {"a": "a"}, {"b": 2}],
    {"a": 2, "b": 2}, {"a": [2], "b": [2]}, [2, 2, "a", 2], {"a": {"b": [2, {"a": None}]}}, [[{"a": 2}], {"a": [2]}],
    {"b": {"a": 2, "b": {"a": "a"}}, "a": 2}, [{"a": {"a": 2}}, 2], {"a": [], "b": {}}, [[], {}], {"a": None, "b": [None]},
    [{"a": 2, "b": 2}, {"a": 2, "b": 2}], {"a": "a", "b": "a"}, ["a", {"a": "a"}], {"a": [2, 2], "b": 2},
    [{"a": [2, {"a": 2}]}], {"a": {"a": 2}, "b": {"a": 2}}, [2], ["a"], {"a": 2}, {"b": "a"},
    # values that differ only by boolean vs number (at any depth): never the same JSON value
    {"a": 1, "b": True}, {"a": [1, 0], "b": [True, False]}, [1, True, 0, False, 1.0], {"a": {"a": 0}, "b": {"a": False}},
    [{"a": True}, {"a": 1}, {"b": [1]}, {"b": [True]}],
]


def docs(tier="thorough"):
    out = [d for d in univ.univ(1, 2 if tier == "quick" else 3, (2, "a", None), ("a", "b")) if isinstance(d, (list, dict))]
    return out + NESTED


# queries whose filter refers to the document root: the root every entry point hands to the filter must be the loaded
# document, whatever form the argument had
ROOTREF = ["$[?@ == $.b]", "$.a[?@ == $.b]", "$[?$.a]", "$..[?@.a == $.b]", "$.*[?$.b == 2]"]


def queries(tier):
    out = [(q,) for q in SIMPLE]
    out += [(q,) for q in ROOTREF + CTXREF]
    for q in ROOTREF:
        for r in SIMPLE[:3] + ROOTREF[:2]:
            for op in "|&":
                out.append((q, op, r))
                out.append((r, op, q))
    # the caller's filter context reaches every operand through every entry point
    for q in CTXREF:
        for r in SIMPLE[:3] + CTXREF[:2]:
            for op in "|&":
                out.append((q, op, r))
                out.append((r, op, q))
        out.append(("$.a", "|", q, "&", CTXREF[0]))
    for n in (1, 2, 3):
        pool = (SIMPLE[:8] if tier == "quick" else SIMPLE) if n < 3 else (SIMPLE[:4] if tier == "quick" else SIMPLE[:6])
        for qs in itertools.product(pool, repeat=n + 1):
            for ops in itertools.product("|&", repeat=n):
                out.append(tuple(x for pair in zip(qs, ops + ("",)) for x in pair if x))
    return out


def text_of(parts):
    return " ".join(parts)


def selftest():
    assert fold([[1, 2, 3]], []) == [1, 2, 3]
    assert fold([[1, 2], [3]], ["|"]) == [1, 2, 3]
    assert fold([[1, 2, 2], [2]], ["&"]) == [2, 2]
    assert fold([[1, 2], [2], [5]], ["&", "|"]) == [2, 5]
    assert fold([[1, 2], [5], [2, 5]], ["|", "&"]) == [2, 5]
    assert fold([[1, 2, 3], [1, 2], [2]], ["&", "&"]) == [2]
    return 6


def fold(results, ops):
    cur = list(results[0])
    for op, r in zip(ops, results[1:]):
        if op == "|":
            cur = cur + list(r)
        else:
            cur = [x for x in cur if any(jeq(x, y) for y in r)]
    return cur


def bounds(tier, seed):
    return {"queries": len(queries(tier)), "docs": len(docs(tier)), "entry_points": 14}


def plan(tier, seed):
    n = len(queries(tier))
    out = [("Q", tier, lo, min(n, lo + 40)) for lo in range(0, n, 40)]
    out.append(("NEST",))
    m = len(txt_queries(tier))
    out += [("TXT", tier, lo, min(m, lo + 200)) for lo in range(0, m, 200)]
    return out


# documents that are not arrays or objects can only be supplied as JSON text / files; a string document whose content
# looks like JSON text is the case split of jsonpath/_data.py (a str argument is parsed)
TXT_DOCS = ['"[2]"', '"{"', '"a"', '2', 'null', '"null"', '"2"', '"{\\"a\\": 2}"', '"[2, \\"a\\"]"', 'true', '""', '" [2]"']
TXT_SIMPLE = ["$", "$[0]", "$.a", "$..*", "^[0]", "^[?@ == '[2]']", "^.*", "$[?@ == 2]", "^[?$ == '[2]']", "^[?$[0] == 2]"]


def txt_queries(tier):
    out = [(q,) for q in TXT_SIMPLE]
    pool = TXT_SIMPLE if tier == "thorough" else TXT_SIMPLE[:6]
    for a in pool:
        for b in pool:
            for op in "|&":
                out.append((a, op, b))
    for a in pool[:4]:
        for b in pool[:4]:
            for c in pool[:4]:
                for o1 in "|&":
                    for o2 in "|&":
                        out.append((a, o1, b, o2, c))
    return out


_SIMPLE_C = {}


def run_shard(shard, acc):
    tier, lo, hi = (shard + (None, None, None))[1:4]
    if shard[0] == "TXT":
        for parts in txt_queries(tier)[lo:hi]:
            _check_txt(parts, acc)
        return
    if shard[0] == "NEST":
        _nest(acc)
        return
    ds = docs(tier)
    for parts in queries(tier)[lo:hi]:
        _check(parts, ds, acc)


CTXREF = ["$[?@ == _.v]", "$.a[?@ == _.v]", "$..[?@.a == _.v]", "$[?_.w]"]
CTX = {"v": 2, "w": "a"}


def _entries(text, p, doc, with_forms, fc=None):
    import jsonpath

    kw = {} if fc is None else {"filter_context": fc}
    yield "env.findall", lambda: jsonpath.findall(text, doc, **kw)
    yield "env.finditer", lambda: [m.obj for m in jsonpath.finditer(text, doc, **kw)]
    yield "compiled.findall", lambda: p.findall(doc, **kw)
    yield "compiled.finditer", lambda: [m.obj for m in p.finditer(doc, **kw)]
    yield "env.query.values", lambda: list(jsonpath.query(text, doc, **kw).values())
    yield "compiled.query.values", lambda: list(p.query(doc, **kw).values())
    yield "compiled.query.iter", lambda: [m.obj for m in p.query(doc, **kw)]
    if with_forms:
        t = json.dumps(doc)
        yield "findall(text)", lambda: p.findall(t, **kw)
        yield "finditer(text)", lambda: [m.obj for m in p.finditer(t, **kw)]
        yield "findall(StringIO)", lambda: p.findall(io.StringIO(t), **kw)
        yield "findall(BytesIO)", lambda: p.findall(io.BytesIO(t.encode()), **kw)
        yield "finditer(StringIO)", lambda: [m.obj for m in p.finditer(io.StringIO(t), **kw)]
        yield "env.findall(StringIO)", lambda: jsonpath.findall(text, io.StringIO(t), **kw)
        yield "query(StringIO).values", lambda: list(p.query(io.StringIO(t), **kw).values())
        yield "match(StringIO)", lambda: (lambda m: [] if m is None else [m.obj])(p.match(io.StringIO(t), **kw))[:1] + [
            x for x in p.findall(doc, **kw)[1:]]
        yield "env.match(text)", lambda: (lambda m: [] if m is None else [m.obj])(jsonpath.match(text, t, **kw))[:1] + [
            x for x in p.findall(doc, **kw)[1:]]
        # the file is read when the query is applied: the caller may close it before consuming the lazy result
        def closed_then_iterate(call):
            f = io.StringIO(t)
            it = call(f)
            f.close()
            return [m.obj for m in it]

        yield "finditer(StringIO), file closed, then iterated", lambda: closed_then_iterate(lambda f: p.finditer(f, **kw))
        yield "env.query(StringIO), file closed, then iterated", lambda: closed_then_iterate(lambda f: jsonpath.query(text, f, **kw))
        # a binary file in any encoding json.loads detects (RFC 8259 8.1 / json.detect_encoding)
        for enc in ("utf-8-sig", "utf-16", "utf-16-le", "utf-32"):
            yield "findall(BytesIO %s)" % enc, lambda enc=enc: p.findall(io.BytesIO(t.encode(enc)), **kw)
        yield "finditer(BytesIO utf-16)", lambda: [m.obj for m in p.finditer(io.BytesIO(t.encode("utf-16")), **kw)]


def _nest(acc, record=True, only=None):
    """Compound paths built with the public constructor and union()/intersection(), with a compound path as the first
    operand of another one (the constructor takes either kind): same fold, same agreement of the entry points."""
    import asyncio

    import jsonpath
    from jsonpath import CompoundJSONPath

    env = jsonpath.DEFAULT_ENV
    pool = SIMPLE[:5]
    ds = docs("quick")[::7] + NESTED[:6]
    for a in pool:
        for b in pool:
            for c in pool:
                for o1 in "|&":
                    for o2 in "|&":
                        key = [a, o1, b, o2, c]
                        if only is not None and key != only:
                            continue
                        inner = env.compile("%s %s %s" % (a, o1, b))
                        outer = CompoundJSONPath(env=env, path=inner)
                        outer = outer.union(env.compile(c)) if o2 == "|" else outer.intersection(env.compile(c))
                        for di, doc in enumerate(ds):
                            exp = fold([_simple(x).findall(doc) for x in (a, b, c)], [o1, o2])
                            bad = None
                            try:
                                for name, fn in (("findall", lambda: outer.findall(doc)),
                                                 ("finditer", lambda: [m.obj for m in outer.finditer(doc)]),
                                                 ("query", lambda: list(outer.query(doc).values())),
                                                 ("findall(text)", lambda: outer.findall(json.dumps(doc))),
                                                 ("findall_async", lambda: asyncio.run(outer.findall_async(doc)))):
                                    got = fn()
                                    if not jeq_list(got, exp):
                                        bad = (name, got)
                                        break
                            except Exception as e:  # noqa: BLE001
                                bad = ("exception", "%s: %s" % (type(e).__name__, e))
                            if record:
                                acc.case("NEST", (tuple(key), di), outcome=tuple(ckey(v) for v in exp), nontrivial=bool(exp), trans=5)
                                acc.count("nest.%s" % ("some" if exp else "none"))
                            if bad:
                                acc.violation("NEST", "nested-compound." + bad[0], {"nest": key, "doc": doc}, expected=exp, observed=bad[1])
                                break


def _simple(text):
    import jsonpath

    if text not in _SIMPLE_C:
        _SIMPLE_C[text] = jsonpath.compile(text)
    return _SIMPLE_C[text]


def _check_txt(parts, acc, record=True, only_doc=None):
    import jsonpath

    text = text_of(parts)
    operands = parts[0::2]
    ops = list(parts[1::2])
    try:
        p = jsonpath.compile(text)
        simple = [jsonpath.compile(s) for s in operands]
    except Exception as e:  # noqa: BLE001
        acc.violation("TXT", "compile-error", {"query": text}, expected="compiles", observed="%s: %s" % (type(e).__name__, e))
        return
    for t in TXT_DOCS:
        if only_doc is not None and t != only_doc:
            continue
        value = json.loads(t)
        bad = None
        try:
            exp = fold([sp.findall(t) for sp in simple], ops)
        except Exception as e:  # noqa: BLE001
            exp = None
            bad = ("simple.findall(text)", "%s: %s" % (type(e).__name__, e))
        if bad is None and len(parts) == 1 and parts[0] == "$" and not jeq_list(exp, [value]):
            bad = ("simple.findall(text)", exp)
            exp = [value]
        entries = [
            ("findall(text)", lambda: p.findall(t)),
            ("finditer(text)", lambda: [m.obj for m in p.finditer(t)]),
            ("env.findall(text)", lambda: jsonpath.findall(text, t)),
            ("env.finditer(text)", lambda: [m.obj for m in jsonpath.finditer(text, t)]),
            ("findall(StringIO)", lambda: p.findall(io.StringIO(t))),
            ("finditer(BytesIO)", lambda: [m.obj for m in p.finditer(io.BytesIO(t.encode()))]),
            ("query(text).values", lambda: list(p.query(t).values())),
            ("env.query(StringIO).values", lambda: list(jsonpath.query(text, io.StringIO(t)).values())),
            ("match(text)", lambda: (lambda m: [] if m is None else [m.obj])(p.match(t)) + list(exp[1:])),
            ("env.match(StringIO)", lambda: (lambda m: [] if m is None else [m.obj])(jsonpath.match(text, io.StringIO(t))) + list(exp[1:])),
        ]
        if bad is None:
            for name, fn in entries:
                try:
                    got = fn()
                    if not jeq_list(got, exp):
                        bad = (name, got)
                        break
                except Exception as e:  # noqa: BLE001
                    bad = (name, "%s: %s" % (type(e).__name__, e))
                    break
        if record:
            acc.case("TXT", (text, t), outcome=None if exp is None else tuple(ckey(v) for v in exp), nontrivial=bool(exp), trans=10)
            acc.count("txt.%d.%s" % (len(ops), "some" if exp else "none"))
            if acc.evals % 500 == 1:
                acc.sample("TXT", {"query": text, "doc_text": t, "expected": exp})
        if bad:
            acc.violation("TXT", "disagrees." + bad[0], {"query": text, "parts": list(parts), "doc_text": t}, expected=exp,
                          observed=bad[1])
            return


def _check(parts, ds, acc, record=True, only_doc=None):
    import jsonpath

    text = text_of(parts)
    operands = parts[0::2]
    ops = list(parts[1::2])
    try:
        p = jsonpath.compile(text)
        for s in operands:
            if s not in _SIMPLE_C:
                _SIMPLE_C[s] = jsonpath.compile(s)
    except Exception as e:  # noqa: BLE001
        acc.violation("EP", "compile-error", {"query": text}, expected="compiles", observed="%s: %s" % (type(e).__name__, e))
        return
    fc = CTX if "_" in text else None
    kw = {} if fc is None else {"filter_context": fc}
    for di, doc in enumerate(ds):
        if only_doc is not None and not jeq(doc, only_doc):
            continue
        exp = fold([_SIMPLE_C[s].findall(doc, **kw) for s in operands], ops)
        bad = None
        for name, fn in _entries(text, p, doc, di % 2 == 0 or only_doc is not None, fc):
            try:
                got = fn()
                if not jeq_list(got, exp):
                    bad = (name, got)
                    break
            except Exception as e:  # noqa: BLE001
                bad = (name, "%s: %s" % (type(e).__name__, e))
                break
        if bad is None:
            try:
                m1 = jsonpath.match(text, doc, **kw)
                m2 = p.match(doc, **kw)
                for nm, m in (("env.match", m1), ("compiled.match", m2)):
                    if exp:
                        if m is None or not jeq(m.obj, exp[0]):
                            bad = (nm, None if m is None else m.obj)
                    elif m is not None:
                        bad = (nm, m.obj)
            except Exception as e:  # noqa: BLE001
                bad = ("match", "%s: %s" % (type(e).__name__, e))
        if record:
            acc.case("EP", (text, di), outcome=tuple(ckey(v) for v in exp), nontrivial=bool(exp), trans=14)
            acc.count("ops.%d.%s" % (len(ops), "some" if exp else "none"))
            if acc.evals % 3000 == 1:
                acc.sample("EP", {"query": text, "doc": doc, "expected": exp})
        if bad:
            acc.violation("EP", "disagrees." + bad[0], {"query": text, "parts": list(parts), "doc": doc}, expected=exp,
                          observed=bad[1])
            return


REQUIRE = {"nest.some": 100, "txt.0.some": 10, "txt.1.some": 50, "txt.2.some": 50, "ops.0.some": 10, "ops.1.some": 100, "ops.2.some": 100, "ops.3.some": 100, "ops.1.none": 10}


def check_case(sub, case, acc):
    if sub == "NEST":
        _nest(acc, record=False, only=case["nest"])
        return
    if sub == "TXT":
        _check_txt(tuple(case["parts"]), acc, record=False, only_doc=case["doc_text"])
        return
    _check(tuple(case["parts"]), docs(), acc, record=False, only_doc=case["doc"])


def shrink(sub, case):
    if sub == "NEST":
        return
    parts = case["parts"]
    n = len(parts) // 2
    for i in range(n + 1):
        if n >= 1:
            if i == 0:
                new = parts[2:]
            else:
                new = parts[:2 * i - 1] + parts[2 * i + 1:]
            if sub == "TXT":
                yield {"query": text_of(new), "parts": list(new), "doc_text": case["doc_text"]}
            else:
                yield {"query": text_of(new), "parts": list(new), "doc": case["doc"]}


def signature(sub, case, v):
    if sub == "NEST":
        return "C11.NEST.%s" % v["kind"]
    parts = case.get("parts") or []
    ops = "".join(parts[1::2])
    obs = v.get("observed")
    exc = ""
    if isinstance(obs, str) and ":" in obs:
        exc = "." + obs.split(":")[0]
    return "C11.%s.ops(%s)%s" % (v["kind"], ops, exc)
