"""Reference evaluator for RFC 9535 queries over ASTs (sections 2.3, 2.5) plus the
documented extensions (docs/syntax.md).  Uses nothing from jsonpath.*.

AST
  query    := ("query", root, [segment...])      root in {"$", "@", "^", "_"}  ("^" fake root, "_" filter context)
  segment  := ("child", [selector...]) | ("desc", [selector...])
  selector := ("name", str) | ("index", int) | ("slice", start|None, stop|None, step|None)
            | ("wild",) | ("filter", expr) | ("keys",)            # ("keys",) is the non-standard keys selector
A node is (location tuple, value); object members are visited in the dict's own order.
"""

NOTHING = ("<Nothing>",)


def N(s):
    return ("name", s)


def I(i):  # noqa: E743
    return ("index", i)


def S(a=None, b=None, c=None):
    return ("slice", a, b, c)


W = ("wild",)
K = ("keys",)


def F(e):
    return ("filter", e)


def C(*sels):
    return ("child", list(sels))


def D(*sels):
    return ("desc", list(sels))


def Q(*segs, root="$"):
    return ("query", root, list(segs))


def is_array(v):
    return isinstance(v, list)


def is_object(v):
    return isinstance(v, dict)


def slice_indices(n, start, stop, step):
    """RFC 9535 2.3.4.2.2 (Normalize / Bounds), written out; no slice.indices()."""
    if step is None:
        step = 1
    if step == 0:
        return []

    def norm(i):
        return i if i >= 0 else n + i

    if step > 0:
        s = 0 if start is None else start
        e = n if stop is None else stop
        ns, ne = norm(s), norm(e)
        lower = min(max(ns, 0), n)
        upper = min(max(ne, 0), n)
        out = []
        i = lower
        while i < upper:
            out.append(i)
            i += step
        return out
    s = n - 1 if start is None else start
    e = -n - 1 if stop is None else stop
    ns, ne = norm(s), norm(e)
    upper = min(max(ns, -1), n - 1)
    lower = min(max(ne, -1), n - 1)
    out = []
    i = upper
    while lower < i:
        out.append(i)
        i += step
    return out


class Ctx:
    """Evaluation context: the query argument ($), filter-context mapping (_)."""

    __slots__ = ("root", "extra", "ext")

    def __init__(self, root, extra=None, ext=True):
        self.root = root
        self.extra = extra if extra is not None else {}
        self.ext = ext


def select(sel, node, ctx):
    """Children of `node` selected by one selector, in order."""
    loc, v = node
    k = sel[0]
    if k == "name":
        if is_object(v) and sel[1] in v:
            return [(loc + (sel[1],), v[sel[1]])]
        return []
    if k == "index":
        i = sel[1]
        if is_array(v):
            n = len(v)
            j = i if i >= 0 else n + i
            if 0 <= j < n:
                return [(loc + (j,), v[j])]
            return []
        if is_object(v):
            # documented departure: index on an object = member named by its decimal spelling
            key = _decimal(i)
            if key in v:
                return [(loc + (key,), v[key])]
        return []
    if k == "slice":
        if is_array(v):
            return [(loc + (j,), v[j]) for j in slice_indices(len(v), sel[1], sel[2], sel[3])]
        return []
    if k == "wild":
        if is_object(v):
            return [(loc + (key,), val) for key, val in v.items()]
        if is_array(v):
            return [(loc + (j,), val) for j, val in enumerate(v)]
        return []
    if k == "filter":
        from . import rfilter

        out = []
        if is_object(v):
            for key, val in v.items():
                if rfilter.truth(sel[1], ctx, (loc + (key,), val), key):
                    out.append((loc + (key,), val))
        elif is_array(v):
            for j, val in enumerate(v):
                if rfilter.truth(sel[1], ctx, (loc + (j,), val), j):
                    out.append((loc + (j,), val))
        return out
    if k == "keys":
        if is_object(v):
            return [(loc + (("~", key),), key) for key in v]
        return []
    raise ValueError("unknown selector %r" % (sel,))


def _decimal(i):
    digits = "0123456789"
    if i == 0:
        return "0"
    neg = i < 0
    i = -i if neg else i
    s = ""
    while i:
        s = digits[i % 10] + s
        i //= 10
    return ("-" if neg else "") + s


def descendants(node):
    """The node and all its descendants in document pre-order."""
    out = [node]
    loc, v = node
    if is_object(v):
        for key, val in v.items():
            out.extend(descendants((loc + (key,), val)))
    elif is_array(v):
        for j, val in enumerate(v):
            out.extend(descendants((loc + (j,), val)))
    return out


def apply_segment(seg, nodes, ctx):
    out = []
    if seg[0] == "child":
        for node in nodes:
            for sel in seg[1]:
                out.extend(select(sel, node, ctx))
        return out
    if seg[0] == "desc":
        for node in nodes:
            for d in descendants(node):
                for sel in seg[1]:
                    out.extend(select(sel, d, ctx))
        return out
    raise ValueError(seg)


def eval_query(q, ctx, current=None):
    """Nodelist [(loc, value)] of query q. `current` is the (loc, value) node for '@'."""
    _, root, segs = q
    if root == "$":
        nodes = [((), ctx.root)]
    elif root == "@":
        nodes = [current]
    elif root == "^":
        nodes = [((), [ctx.root])]
    elif root == "_":
        nodes = [((), ctx.extra)]
    else:
        raise ValueError(root)
    for seg in segs:
        nodes = apply_segment(seg, nodes, ctx)
    return nodes


def values(q, doc, extra=None):
    return [v for _, v in eval_query(q, Ctx(doc, extra))]


def nodelist(q, doc, extra=None):
    return eval_query(q, Ctx(doc, extra))


def is_singular(q):
    for seg in q[2]:
        if seg[0] != "child" or len(seg[1]) != 1 or seg[1][0][0] not in ("name", "index"):
            return False
    return True
