#!/usr/bin/env python3
"""Regenerate /verif/MANIFEST.json from the table below (keeps it valid at all times)."""
import json
import os

BASE = "cd /repo && PYTHON_JSONPATH_VERIF= /venv/bin/python -m pytest -ra -q -p no:cacheprovider --timeout=900 --continue-on-collection-errors"

CHECKS = {k: (v["engine"], v["technique"], v["text"], v["note"], v["ref"]) for k, v in json.load(open(os.path.join(os.path.dirname(os.path.abspath(__file__)), "checks.json"))).items()}

PENDING_REASON = "check not built yet in this session (work in progress; see DESIGN.md section 5 for the planned bounded-exhaustive check)"


def main():
    here = os.path.dirname(os.path.dirname(os.path.abspath(__file__)))
    ids = [json.loads(l)["id"] for l in open(os.path.join(here, "properties.jsonl"))]
    checks = []
    na = []
    for i in ids:
        if i in CHECKS:
            eng, tech, text, note, ref = CHECKS[i]
            checks.append(
                {
                    "property_id": i,
                    "quick_cmd": "./check %s quick" % i,
                    "thorough_cmd": "./check %s thorough" % i,
                    "evidence_file": "/verif/evidence/%s.json" % i,
                    "replay_cmd_template": "./check %s --replay {path}" % i,
                    "engine": eng,
                    "level_claimed": {"category": "model_checking", "text": text, "design_ref": ref},
                    "level_note": note,
                    "technique": tech,
                }
            )
        else:
            na.append({"property_id": i, "reason": PENDING_REASON})
    m = {
        "version": 1,
        "setup_cmd": "cd /verif && /venv/bin/python -B -c \"import sys; sys.path.insert(0,'/verif'); import mc.run\" && chmod +x check",
        "hooks": {
            "guard": "PYTHON_JSONPATH_VERIF",
            "enable": "no hooks are compiled into the repository: checks import /repo's working tree directly (sys.path[0]=/repo) and instrument it from outside (subclassing, proxies, sys.setprofile); the guard variable is exported by ./check for uniformity only",
            "baseline_off_cmd": BASE,
            "source_commits": [],
            "add_only": True,
        },
        "engines": [
            {"name": "E-HIST", "path": "mc/run.py + mc/props/*", "serves_properties": ["C05", "C09", "C12", "C14", "C15"],
             "kind_free_text": "hand-written explicit-state explorer: all operation histories up to a depth bound, rebuilt on fresh real objects, lock-step against a reference model"},
            {"name": "E-PROD", "path": "mc/run.py + mc/props/*", "serves_properties": ["C01", "C02", "C03", "C04", "C06", "C07", "C10", "C11", "C13", "C16", "C17", "C18", "C19", "C20"],
             "kind_free_text": "bounded-exhaustive enumeration of programs x spellings x inputs x configurations executed on the real code against independent reference models"},
            {"name": "E-SCHED", "path": "mc/sched.py", "serves_properties": ["C08", "C09"],
             "kind_free_text": "stateless schedule exploration with iterative context bounding over iterators, coroutines (own trampoline) and baton-serialised OS threads"},
        ],
        "checks": checks,
        "not_applicable": na,
        "notes": "All checks: ./check <ID> quick|thorough; VERIF_SEED selects which complete extra block of the thorough space the quick tier adds; exit 2 = harness error (never a verdict). Known findings: /verif/known_findings.json.",
    }
    if not na:
        del m["not_applicable"]
        m["not_applicable"] = []
    with open(os.path.join(here, "MANIFEST.json"), "w") as f:
        json.dump(m, f, indent=1)


if __name__ == "__main__":
    main()
