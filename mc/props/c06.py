"""C06 - only the documented error families ever escape; every call terminates.

E-EDIT + E-PROD: (Q) all token strings up to a length bound over a 47-token alphabet,
(E) all strings within token-edit distance k of seed queries, (P) all pointer /
relative-pointer strings up to a length bound, (J) patch documents built from pools of
valid / unknown / missing / ill-typed members.  Everything accepted is evaluated
against documents of every JSON type.  Each execution runs under a CPU budget.
"""
import itertools

from ..run import BudgetExceeded, budget
from .common import chunks

ID = "C06"
RULE = (
    "Q: every string of <=3 (thorough 4) tokens from a 47-token alphabet (identifiers, brackets, operators, keywords, numbers "
    "incl. 1e400 and leading zeros, quotes incl. unterminated, regex literals incl. invalid, function names); E: every string "
    "obtained from 40 seed queries by <=1 (thorough: 2 over a reduced alphabet) token insert/delete/replace at every character "
    "boundary; everything that compiles is evaluated (findall and finditer) on 12 documents of every JSON type; "
    "P: every string of <=4 (5) characters over a 14-character pointer alphabet as JSONPointer (4 decoder settings), resolved on "
    "the documents, and as RelativeJSONPointer applied to 4 base pointers; X: an extreme-token pool (5000-digit integers and exponents in every numeric position of queries, pointers, relative pointers and patch paths; 17 regular expressions that re refuses in different ways, as literals and as match/search arguments, also supplied by the document; very long and very repetitive queries and pointers); J: every patch of 1 entry from the full member pools "
    "and of 2 entries from reduced pools, constructed and applied to the documents. "
    "state = distinct input text/structure; non-trivial = input accepted (compiled / parsed / constructed)"
)
ASSUMPTIONS = [
    "documented families: JSONPathError for compile/evaluate; JSONPointerError for JSONPointer() and resolution "
    "(JSONPointerResolutionError); RelativeJSONPointerError or JSONPointerError for relative pointers; JSONPatchError for patches",
    "termination = completion within a CPU budget of 2 s per execution (typical cost < 1 ms)",
    "outside the claim as stated: nesting deeper than 100, time inside the regex engine on caller-supplied patterns, "
    "documents supplied as malformed JSON text",
]

T = ["$", "@", "#", "_", "~", "^", "|", "&", ".", "..", "[", "]", "(", ")", "?", "*", ",", ":", "!", "&&", "||", "==", "!=",
     "<>", "<", "<=", ">", ">=", "=~", " in ", " contains ", " and ", " or ", " not ", "true", "null", "undefined", "0", "1",
     "-1", "01", "1e2", "1e400", "1.5", "-", "a", "'a'", '"a"', "'", '"', "/a/", "/(/", "/", "\\", "length(", "count(",
     "match(", "nosuch(", " "]
T_RED = ["$", "@", "[", "]", "?", "*", "==", "1", "'", "(", ")", "/a/", "1e400", " in ", "#", "!", " not ", "&&"]

SEEDS = [
    "$.a.b", "$['a']['b']", "$..a", "$.*", "$[*]", "$[0]", "$[-1]", "$[1:3]", "$[::2]", "$[0,1]", "$..[0]", "$['a','b']",
    "$[?@.a]", "$[?@.a == 1]", "$[?@.a > 1 && @.b < 2]", "$[?!@.a || @.b]", "$[?(@.a)]", "$[?length(@.a) == 2]",
    "$[?count(@.*) > 1]", "$[?match(@.a, 'a.*')]", "$[?search(@.a, 'b')]", "$[?value(@..a) == 1]", "$[?@.a =~ /a+/i]",
    "$[?@.a in [1, 2]]", "$[?@.a contains 'x']", "$[?@ in $.l]", "$[?# == 'a']", "$[?@.a == _.b]", "$.a.~", "$[~]",
    "^[?@.a]", "$.a | $.b", "$.a & $.b", "a.b", "$[?@.a == undefined]", "$[?@.a != missing]", "$[?@ == 1e2]",
    "$[?@ < 1.5]", "$[?@.a == 'x' and not @.b]", "$..[?@[0] == null]",
    "$[?match(@.a, @.b)]", "$[?search(@.a, @.b)]", "$..[?match(@.a, @.b) || search(@.b, @.a)]",
    "$[?(@.a && !@.b)]", "$[?(@.a and not @.b)]", "$[?(@.a == 1 && (@.b || !@.c))]", "$[?!(@.a) && (@.b)]",
]

DOCS = [None, True, 0, 1.5, "s", [], {}, [1, "a", [2], {"a": 1}], {"a": [1, 2], "b": {"a": "x"}, "1": None},
        {"a": "ab", "l": [1, "a"], "b": 1}, [[["x"]], {"a": {"a": {"a": 1}}}], [0, False, "", None],
        # caller-supplied regular expressions that re refuses in different ways
        [{"a": "ab", "b": "("}, {"a": "ab", "b": "a{99999999999999999999}"}, {"a": "ab", "b": "\\"}, {"a": "ab", "b": "(?<=a+)b"},
         {"a": "ab", "b": "\\1"}, {"a": "ab", "b": "(?P<n>a)(?P<n>b)"}, {"a": "ab", "b": "*"}, {"a": "ab", "b": "[z-a]"}],
        # JSON texts (a str argument is JSON text) of documents that are strings whose content looks like broken JSON text
        '"{"', '"[1, 2"', '"[1]"',
        # a JSON text holding an integer with more digits than the interpreter converts by default
        "[" + "1" * 5000 + "]"]

P_SIGMA = ["/", "~", "0", "1", "-", "+", "#", "\\", "u", "x", "a", "%", " ", "é"]
BASES = ["", "/a", "/0/1", "/a/b/2", "/a/²", "/a/①/b", "/٣", "/a/1²", "/a/-5", "/9/9"]


BIGN = "9" * 5000
REGEX_BAD = ["(", ")", "[", "*", "a{99999999999999999999}", "a{2,1}", "\\", "(?<=a+)b", "\\1", "(?P<n>a)(?P<n>b)", "[z-a]", "(?i", "a**",
             "(" * 120 + ")" * 120, "(?P<1>a)", "\\g<x>", "(?(1)a|b)", "(?u)a", "(?L)a", "(?a)(?u)b", "(?x) a", "(?i)(?-i)a", "a(?u)"]


def extreme_queries():
    out = []
    for n in (BIGN, "-" + BIGN, "1e" + BIGN[:400], BIGN + ".5", "0." + BIGN, "1e-" + BIGN[:400], "1E+" + BIGN[:30]):
        out += ["$[%s]" % n, "$[%s:]" % n, "$[:%s]" % n, "$[::%s]" % n, "$[0,%s]" % n, "$[?@ == %s]" % n, "$[?@ < %s]" % n,
                "$[?@[%s]]" % n, "$[?length(@) == %s]" % n, "$[?@ in [%s]]" % n, "$..[%s]" % n]
    for rx in REGEX_BAD:
        out += ["$[?@.a =~ /%s/]" % rx, "$[?@ =~ /%s/i]" % rx, "$[?@ =~ /%s/a]" % rx, "$[?@ =~ /%s/aims]" % rx, "$[?match(@.a, '%s')]" % rx.replace("'", ""), "$[?search(@, \"%s\")]" % rx.replace('"', "")]
    # flat chains of many links: operands of one && / ||, and segments of one query, are siblings, not nesting levels
    out += ["$[?" + " && ".join(["@.a"] * 600) + "]", "$[?" + " || ".join(["@.a == 1"] * 600) + "]", "$" + ".a" * 1200, "$" + "[0]" * 1200]
    # filters nested 80 / 60 deep (below the hundred levels the claim covers): compile and evaluate, then str()
    out += ["$" + "[?@" * 80 + ".a" + "]" * 80, "$" + "[?$" * 80 + ".a" + "]" * 80, "$" + "[?count(@" * 60 + ".a" + ") > 0]" * 60]
    # (chains of ! and parentheses are kept below a hundred links: deeper nesting is outside the claim)
    out += ["$" + ".a" * 90, "$" + "[0]" * 90, "$[?" + "!" * 90 + "@]", "$[?@" + " && @" * 90 + "]", "$[?@" + " || @ && !@" * 45 + "]",
            "$['" + "a" * 100000 + "']",
            # unterminated quotes followed by runs that invite catastrophic backtracking in the lexer's own patterns
            '$["' + "\\\\" * 40 + "]", "$['" + "\\\\" * 40 + "]", '$["' + "\\\\" * 40, "$['" + "\\'" * 60, '$[?@ == "' + '\\"' * 60 + "]",
            "$[?@ =~ /" + "\\/" * 60, "$[" + "1:" * 3000 + "]", "$" + " " * 20000 + ".a", "$[?" + "(" * 90 + "@" + ")" * 90 + "]",
            "$.a" + "." * 90 + "b", "$[?@ == " + "-" * 5000 + "1]", "$[" + "'a'," * 3000 + "'a']",
            "$[" + ",".join(["0"] * 5000) + "]", "$[?@ == '" + "\\u0041" * 5000 + "']", "$[?@ in [" + ",".join(["1"] * 5000) + "]]"]
    return out


def extreme_pointers():
    out = []
    for n in (BIGN, "-" + BIGN, "0" + BIGN, "+" + BIGN):
        out += ["/" + n, "/a/" + n, "/" + n + "/a", "/#" + n, "/~" + n]
    out += ["/a" * 20000, "/" + "~0" * 20000, "/" + "\\u0041" * 5000, "/%41" * 3000]
    # unpaired UTF-16 surrogates, as escapes and raw
    out += ["/\\ud83d", "/\\ude00", "/\\ude00\\ud83d", "/\\ud83d/a", "/a\\ud83dx", "/\ud800", "/a/\udfff", "/\\ud83d\\ude00", "/\\uD83D\\u0041"]
    return out


def extreme_relative():
    out = []
    for n in (BIGN, "0" + BIGN):
        out += [n, n + "#", n + "/a", "0+" + n, "0-" + n, "1+" + n + "#", "0+" + n + "/a", n + "+" + n]
    # offsets just inside the interpreter's integer/string conversion limit (4300 digits): the sum crosses it
    for k in (4299, 4300, 4301):
        out += ["0+" + "9" * k, "0-" + "9" * k, "0+" + "9" * k + "#", "1+" + "9" * k + "/a"]
    out += ["0/\\ud83d", "1/\\ude00/a", "0/\ud800", "0+1/\\ud83d"]
    return out


def selftest():
    return 0


def bounds(tier, seed):
    return {"Q.tokens": len(T), "Q.len": 3 if tier == "quick" else 4, "E.k": 1 if tier == "quick" else 2,
            "P.len": 4 if tier == "quick" else 5, "J.single_pool": len(list(patch_entries(False))), "J.pair_pool": len(list(patch_entries(True)))}


def plan(tier, seed):
    shards = []
    n = len(T)
    if tier == "quick":
        for a in range(n):
            shards.append(("Q", 3, a, None))
        # one complete length-4 block chosen by the seed
        shards.append(("Q4", seed % n, (seed // n) % n))
    else:
        for a in range(n):
            for b in range(0, n, 8):
                shards.append(("Q", 4, a, (b, b + 8)))
    for i in range(len(SEEDS)):
        shards.append(("E", 1, i))
    if tier == "thorough":
        for i in range(0, len(SEEDS), 4):
            shards.append(("E", 2, i))
    m = len(P_SIGMA)
    if tier == "quick":
        for a in range(m):
            shards.append(("P", 4, a, None))
    else:
        for a in range(m):
            for b in range(m):
                shards.append(("P", 5, a, b))
    for k in range(8):
        shards.append(("J", k, 8))
    for k in range(8):
        shards.append(("X", k, 8))
    return shards


def run_shard(shard, acc):
    kind = shard[0]
    if kind == "Q":
        _, ln, a, rng = shard
        if rng is None:
            for rest_len in range(0, ln):
                for rest in itertools.product(T, repeat=rest_len):
                    _query("Q", T[a] + "".join(rest), acc)
        else:
            for b in range(rng[0], min(rng[1], len(T))):
                for rest_len in range(0, ln - 1):
                    for rest in itertools.product(T, repeat=rest_len):
                        _query("Q", T[a] + T[b] + "".join(rest), acc)
            if rng[0] == 0:
                _query("Q", T[a], acc)
    elif kind == "Q4":
        _, a, b = shard
        for rest in itertools.product(T, repeat=2):
            _query("Q", T[a] + T[b] + "".join(rest), acc)
    elif kind == "E":
        _, k, i = shard
        seed_q = SEEDS[i]
        seen = set()
        if k == 1:
            for s in _edits(seed_q, T):
                if s not in seen:
                    seen.add(s)
                    _query("E", s, acc)
        else:
            for s1 in _edits(seed_q, T_RED):
                for s2 in _edits(s1, T_RED):
                    if s2 not in seen:
                        seen.add(s2)
                        _query("E", s2, acc)
    elif kind == "P":
        _, ln, a, b = shard
        if b is None:
            for rest_len in range(0, ln):
                for rest in itertools.product(P_SIGMA, repeat=rest_len):
                    _pointer(P_SIGMA[a] + "".join(rest), acc)
            if a == 0:
                _pointer("", acc)
        else:
            for rest_len in range(0, ln - 1):
                for rest in itertools.product(P_SIGMA, repeat=rest_len):
                    _pointer(P_SIGMA[a] + P_SIGMA[b] + "".join(rest), acc)
            if b == 0:
                _pointer(P_SIGMA[a], acc)
            if a == 0 and b == 0:
                _pointer("", acc)
    elif kind == "X":
        _, k, nk = shard
        for i, q in enumerate(extreme_queries()):
            if i % nk == k:
                _query("X", q, acc)
        for i, t in enumerate(extreme_pointers() + extreme_relative()):
            if i % nk == k:
                _pointer(t, acc)
        for i, t in enumerate(extreme_pointers()[::3]):
            if i % nk == k:
                _patch([{"op": "add", "path": t, "value": 1}], acc)
                _patch([{"op": "move", "from": t, "path": "/a"}], acc)
    elif kind == "J":
        _, k, nk = shard
        singles = list(patch_entries(False))
        for i, e in enumerate(singles):
            if i % nk == k:
                _patch([e], acc)
        red = list(patch_entries(True))
        for i, (e1, e2) in enumerate(itertools.product(red, repeat=2)):
            if i % nk == k:
                _patch([e1, e2], acc)
        if k == 0:
            # (a str is the JSON-text form of a patch, not a list of operations: not generated)
            for whole in ({}, 1, None, [], [[]], {"op": "add"}, ["add"], (), [None]):
                _patch(whole, acc)


def _edits(s, alphabet):
    n = len(s)
    for i in range(n + 1):
        for t in alphabet:
            yield s[:i] + t + s[i:]
    for i in range(n):
        yield s[:i] + s[i + 1:]
        for t in alphabet:
            yield s[:i] + t + s[i + 1:]
    # delete one occurrence of a multi-character token
    for t in alphabet:
        if len(t) > 1:
            start = s.find(t)
            while start != -1:
                yield s[:start] + s[start + len(t):]
                start = s.find(t, start + 1)


def _render(exc):
    str(exc)
    repr(exc)
    return type(exc).__name__


def _query(sub, text, acc, record=True):
    import jsonpath
    from jsonpath import JSONPathError

    bad = None
    outcome = None
    try:
        with budget(2.0):
            try:
                p = jsonpath.compile(text)
                outcome = "compiled"
            except JSONPathError as e:
                outcome = "rejected:" + _render(e)
                p = None
            if p is not None:
                str(p)
                for di, doc in enumerate(DOCS):
                    try:
                        p.findall(doc, filter_context={"b": 1})
                        for _m in p.finditer(doc):
                            pass
                    except JSONPathError as e:
                        _render(e)
                    except BudgetExceeded:
                        raise
                    except Exception as e:  # noqa: BLE001
                        bad = ("evaluate-escape", "%s: %s" % (type(e).__name__, e), di)
                        break
    except BudgetExceeded:
        bad = ("timeout", "CPU budget of 2 s exceeded", None)
    except RecursionError as e:
        bad = ("compile-escape", "RecursionError: %s" % e, None)
    except Exception as e:  # noqa: BLE001
        bad = ("compile-escape", "%s: %s" % (type(e).__name__, e), None)
    if record:
        acc.case(sub, text, outcome=outcome, nontrivial=outcome == "compiled")
        acc.count("%s.%s" % (sub, "compiled" if outcome == "compiled" else "rejected"))
        if acc.evals % 4000 == 1:
            acc.sample(sub, {"text": text, "outcome": outcome})
    if bad:
        case = {"text": text}
        if bad[2] is not None:
            case["doc"] = DOCS[bad[2]]
        acc.violation("Q" if sub in ("E", "X") else sub, bad[0], case, expected="value or a JSONPathError", observed=bad[1])


def _pointer(text, acc, record=True):
    from jsonpath import JSONPointer, RelativeJSONPointer
    from jsonpath import pointer as ptrmod
    from jsonpath.exceptions import JSONPointerError, JSONPointerResolutionError, RelativeJSONPointerError

    bad = None
    accepted = False
    try:
        with budget(2.0):
            for ue, ud in ((True, False), (False, False), (True, True), (False, True)):
                stage = "JSONPointer(ue=%s,ud=%s)" % (ue, ud)
                try:
                    p = JSONPointer(text, unicode_escape=ue, uri_decode=ud)
                    accepted = True
                except JSONPointerError as e:
                    _render(e)
                    continue
                str(p), repr(p), hash(p), p.parent(), p == p
                for doc in DOCS:
                    stage = "resolve(ue=%s,ud=%s) on %r" % (ue, ud, doc)
                    try:
                        p.resolve(doc)
                    except JSONPointerResolutionError as e:
                        _render(e)
                    p.exists(doc)
                    p.resolve(doc, default=None)
                    try:
                        p.resolve_parent(doc)
                    except JSONPointerResolutionError as e:
                        _render(e)
                    if ue and not ud:
                        try:
                            ptrmod.resolve(text, doc)
                        except JSONPointerError as e:
                            _render(e)
            stage = "RelativeJSONPointer()"
            try:
                r = RelativeJSONPointer(text)
            except (RelativeJSONPointerError, JSONPointerError) as e:
                _render(e)
                r = None
            if r is not None:
                accepted = True
                str(r), r == r
                for b in BASES:
                    stage = "RelativeJSONPointer.to(%r)" % b
                    try:
                        res = r.to(b)
                    except (RelativeJSONPointerError, JSONPointerError) as e:
                        _render(e)
                        continue
                    str(res)
                    for doc in DOCS[6:10]:
                        stage = "resolve of RelativeJSONPointer.to(%r) on %r" % (b, doc)
                        try:
                            res.resolve(doc)
                        except JSONPointerResolutionError as e:
                            _render(e)
            stage = "JSONPointer.to()"
            try:
                JSONPointer("/a/0").to(text)
            except (RelativeJSONPointerError, JSONPointerError) as e:
                _render(e)
    except BudgetExceeded:
        bad = ("timeout", "CPU budget exceeded at " + stage)
    except Exception as e:  # noqa: BLE001
        bad = ("pointer-escape", "%s: %s (at %s)" % (type(e).__name__, e, stage))
    if record:
        acc.case("P", text, outcome=accepted, nontrivial=accepted)
        acc.count("P.accepted" if accepted else "P.rejected")
        if acc.evals % 4000 == 1:
            acc.sample("P", {"text": text, "accepted": accepted})
    if bad:
        acc.violation("P", bad[0], {"text": text}, expected="value or a pointer error", observed=bad[1])


OPS = ["add", "remove", "replace", "move", "copy", "test", "addne", "addap", "nosuch", None, 1, ("<missing>",)]
PATHS = ["/a", "", "/0", "/-", "/a/b", "/a/0", "a", "/~2", ("<missing>",), 1, None, "/\\x", "/9007199254740992", "/é", "/#0",
         "/#x", "/+1", "/1"]
FROMS = ["/a", "", ("<missing>",), 1, "/zz", "/\\u00"]
VALS = [1, ("<missing>",), {"a": [1]}]


def patch_entries(reduced):
    ops = OPS if not reduced else ["add", "remove", "move", "test", "nosuch", ("<missing>",)]
    paths = PATHS if not reduced else ["/a", "", "/-", "a", ("<missing>",), "/\\x", "/#x"]
    froms = FROMS if not reduced else ["/a", ("<missing>",)]
    vals = VALS if not reduced else [1, ("<missing>",)]
    for op in ops:
        for path in paths:
            for frm in froms:
                for val in vals:
                    e = {}
                    if op != ("<missing>",):
                        e["op"] = op
                    if path != ("<missing>",):
                        e["path"] = path
                    if frm != ("<missing>",):
                        e["from"] = frm
                    if val != ("<missing>",):
                        e["value"] = val
                    yield e
    if not reduced:
        for e in (1, None, "x", [], ["op"], {"op": "add", "path": "/a", "value": 1, "extra": 2}):
            yield e


def _patch(entries, acc, record=True):
    from jsonpath import JSONPatch
    from jsonpath.exceptions import JSONPatchError
    from ..jsonutil import deep_copy

    bad = None
    accepted = False
    stage = "JSONPatch()"
    try:
        with budget(2.0):
            for ue in (True, False):
                stage = "JSONPatch(unicode_escape=%s)" % ue
                try:
                    p = JSONPatch(deep_copy(entries) if isinstance(entries, (list, dict)) else entries, unicode_escape=ue)
                    accepted = True
                except JSONPatchError as e:
                    _render(e)
                    continue
                p.asdicts()
                for doc in DOCS:
                    stage = "apply(unicode_escape=%s) to %r" % (ue, doc)
                    try:
                        p.apply(deep_copy(doc))
                    except JSONPatchError as e:
                        _render(e)
    except BudgetExceeded:
        bad = ("timeout", "CPU budget exceeded at " + stage)
    except Exception as e:  # noqa: BLE001
        bad = ("patch-escape", "%s: %s (at %s)" % (type(e).__name__, e, stage))
    if record:
        acc.case("J", repr(entries), outcome=accepted, nontrivial=accepted)
        acc.count("J.accepted" if accepted else "J.rejected")
        if acc.evals % 1500 == 1:
            acc.sample("J", {"patch": repr(entries), "accepted": accepted})
    if bad:
        from ..jsonutil import jsonable
        acc.violation("J", bad[0], {"patch": jsonable(entries)}, expected="result or a JSONPatchError", observed=bad[1])


REQUIRE = {"X.compiled": 5, "X.rejected": 20, "Q.compiled": 100, "Q.rejected": 1000, "E.compiled": 100, "E.rejected": 100, "P.accepted": 100, "P.rejected": 100,
           "J.accepted": 50, "J.rejected": 50}


def check_case(sub, case, acc):
    if sub == "Q":
        _query("Q", case["text"], acc, record=False)
    elif sub == "P":
        _pointer(case["text"], acc, record=False)
    else:
        _patch(case["patch"], acc, record=False)


def shrink(sub, case):
    if sub in ("Q", "P"):
        t = case["text"]
        for i in range(len(t)):
            yield {"text": t[:i] + t[i + 1:]}
        for i in range(len(t)):
            for j in range(i + 2, min(len(t), i + 12) + 1):
                yield {"text": t[:i] + t[j:]}
    else:
        p = case["patch"]
        if isinstance(p, list):
            for i in range(len(p)):
                yield {"patch": p[:i] + p[i + 1:]}
            for i, e in enumerate(p):
                if isinstance(e, dict):
                    for k in list(e):
                        e2 = {k2: v for k2, v in e.items() if k2 != k}
                        yield {"patch": p[:i] + [e2] + p[i + 1:]}


def signature(sub, case, v):
    import re

    obs = str(v.get("observed"))
    exc = obs.split(":")[0]
    msg = re.sub(r"'[^']*'|\"[^\"]*\"", "S", obs)
    msg = re.sub(r"[0-9]+", "N", msg)
    msg = re.sub(r"\(at .*", "", msg)
    at = ""
    m = re.search(r"\(at ([A-Za-z.]+)", obs)
    if m:
        at = "." + m.group(1)
    return "C06.%s.%s.%s%s" % (sub, v["kind"], msg[:70].strip(), at)
