"""C04 - JSON Pointer resolution conforms to RFC 6901 for every document and pointer.

E-PROD: (P) every node of every document of a name-driven family resolves to itself
(object identity); (N) every one-token extension/mutation of every location of the
colliding base documents either resolves like the reference or raises a resolution error.
"""
import re

from ..gen.alpha import LOOKALIKES, strings_upto
from ..jsonutil import ckey
from ..ref import rptr
from ..univ import nodes
from .common import chunks, type_tag

ID = "C04"
RULE = (
    "P: for every name over the 25-character alphabet up to the length bound (plus look-alikes) a family of documents "
    "using it as member name at depth 1-2, under arrays and over arrays/strings; every node's RFC 6901 spelling must "
    "resolve to that very object (unicode_escape=False always; default decoder when the text has no backslash). "
    "N: every node location of the colliding base documents extended by every mutation token; reference says value or "
    "cannot-evaluate; implementation must agree (identity) or raise JSONPointerResolutionError / return default. "
    "state = distinct (document, pointer text, decoder); non-trivial = pointer has at least one token"
)
ASSUMPTIONS = [
    "reference model mc/ref/rptr.py (RFC 6901 sections 3-4), self-tested on RFC 6901 section 5",
    "negative clause skips exactly: -[0-9]+ on arrays, decoded tokens starting with # or ~, integers beyond the index limit",
    "documents are plain dict/list/str/int/bool/None values",
]

SENTINEL = object()
BASE_DOCS = [
    {"a": ["x", "y", "z"], "1": "one", "": "e", "b": {"1": "n", "01": "z", "+1": "p", "-": "dash", "1_0": "u"},
     "s": "str", "n": 5, "t": True, "z": None, "é": "acute", "~": "tilde", "/": "slash", "-1": "neg", "０": "fw"},
    [["x", "y"], {"a": "v", "0": "zero", "1": "one"}, "str", 7, False, None, [], {}],
    [],
    ["only"],
    ["p", "q", "r", "s", "t", "u", "v", "w", "x", "y", "z10", "z11"],
    {"": {"": {"": "deep"}}, " ": "blank", "a b": 1},
]
INDEXISH = ["0", "1", "2", "3", "10", "11", "12", "-", "-0", "-1", "-2", "00", "01", "+0", "+1", "1.0", "1e0", "0x1",
            " 1", "1 ", "1_0", "１", "１0", "٣", "²", "9007199254740992", "#0", "#1", "#a", "~a", "~0", "true", "null", "",
            # the index limits themselves (still legal), and index-like tokens followed by a line break
            "9007199254740991", "-9007199254740991", "9007199254740990", "1\n", "0\n", "-1\n", "1\r", "\n1"]


def selftest():
    return rptr.selftest()


def names(tier):
    # integers beyond the index limit are not generated as member names (DESIGN 1a/3)
    return strings_upto(2) + LOOKALIKES + [t for t in INDEXISH if not (t.isascii() and t.isdigit() and len(t) > 15
                                                                   and t > "9007199254740991")]


def muts(tier):
    base = strings_upto(2) + LOOKALIKES + INDEXISH
    seen = set()
    out = []
    for m in base:
        if m not in seen:
            seen.add(m)
            out.append(m)
    return out


def bounds(tier, seed):
    return {"P.names": len(names(tier)) + (len(strings_upto(3)) if tier == "thorough" else 0),
            "N.mutation_tokens": len(muts(tier)), "N.base_docs": len(BASE_DOCS)}


def plan(tier, seed):
    shards = []
    ns = names(tier)
    for part in chunks(list(range(len(ns))), 40):
        shards.append(("P", tier, part[0], part[-1] + 1))
    if tier == "thorough":
        n3 = len(strings_upto(3))
        for lo in range(0, n3, 500):
            shards.append(("P3", lo, min(n3, lo + 500)))
    ms = muts(tier)
    for di in range(len(BASE_DOCS)):
        for part in chunks(list(range(len(ms))), 60 if tier == "quick" else 80):
            shards.append(("N", tier, di, part[0], part[-1] + 1))
    return shards


def family(nm):
    partners = ["a", "0", "1", nm]
    docs = [{nm: "L"}, [{nm: "L"}], {nm: ["x", "y"]}, {nm: "str", "zz": 1}, {"zz": {nm: {nm: "L"}}}]
    for m in partners:
        docs.append({nm: {m: "L"}})
    return docs


def run_shard(shard, acc):
    kind = shard[0]
    if kind == "P":
        for nm in names(shard[1])[shard[2]:shard[3]]:
            for doc in family(nm):
                for loc, node in nodes(doc):
                    _check("P", doc, rptr.loc_tokens(loc), acc)
    elif kind == "P3":
        for nm in strings_upto(3)[shard[1]:shard[2]]:
            if len(nm) < 3:
                continue
            for doc in family(nm)[:3]:
                for loc, node in nodes(doc):
                    _check("P", doc, rptr.loc_tokens(loc), acc)
    elif kind == "N":
        _, tier, di, lo, hi = shard
        doc = BASE_DOCS[di]
        ms = muts(tier)[lo:hi]
        locs = [rptr.loc_tokens(loc) for loc, _ in nodes(doc)]
        for toks in locs:
            for m in ms:
                _check("N", doc, toks + [m], acc)
                if toks:
                    _check("N", doc, toks[:-1] + [m] + ["0"], acc)


RE_NEG = re.compile(r"-[0-9]+\Z")


def _excluded(doc, toks):
    """Is the failing step one of the documented extensions (outside the negative clause)?"""
    cur = doc
    for t in toks:
        try:
            cur = rptr.step(cur, t)
        except rptr.CannotEvaluate:
            if isinstance(cur, list) and RE_NEG.match(t):
                return True
            if t.startswith("#") or t.startswith("~"):
                return True
            if t.isascii() and t.isdigit() and len(t) > 15:
                return True
            if RE_NEG.match(t) and len(t) > 16:
                return True
            return False
    return False


def _check(sub, doc, toks, acc):
    from jsonpath import JSONPointer
    from jsonpath import pointer as ptrmod
    from jsonpath.exceptions import JSONPointerResolutionError

    text = rptr.encode(toks)
    try:
        exp = ("value", rptr.resolve(doc, toks))
    except rptr.CannotEvaluate:
        exp = ("cannot",)
    if exp[0] == "cannot" and _excluded(doc, toks):
        acc.count("N.excluded")
        return
    modes = [False]
    if "\\" not in text:
        modes.append(True)
    else:
        # the text has a backslash: the default decoder is outside the clause, but parsing it with that decoder first
        # must not influence what the same text means with decoding disabled
        try:
            JSONPointer(text)
        except Exception:  # noqa: BLE001
            pass
    for ue in modes:
        bad = None
        note = "unicode_escape=%s" % ue
        try:
            p = JSONPointer(text, unicode_escape=ue)
        except JSONPointerResolutionError as e:
            # an index beyond the limits is reported at parse time; that is a resolution error too
            p = None
            if exp[0] == "value":
                bad = ("construct", "%s: %s" % (type(e).__name__, e))
        except Exception as e:  # noqa: BLE001
            p = None
            bad = ("construct", "%s: %s" % (type(e).__name__, e))
        if p is not None:
            try:
                got = ("value", p.resolve(doc))
            except JSONPointerResolutionError:
                got = ("cannot",)
            except Exception as e:  # noqa: BLE001
                got = ("exception", "%s: %s" % (type(e).__name__, e))
            if exp[0] == "value":
                if got[0] != "value" or got[1] is not exp[1]:
                    bad = ("resolve", got)
                else:
                    try:
                        if p.exists(doc) is not True:
                            bad = ("exists", False)
                        elif p.resolve(doc, default=SENTINEL) is not exp[1]:
                            bad = ("default-ignored-value", None)
                        else:
                            par, obj = p.resolve_parent(doc)
                            if obj is not exp[1]:
                                bad = ("resolve_parent.obj", repr(obj)[:80])
                            elif toks and par is not rptr.resolve(doc, toks[:-1]):
                                bad = ("resolve_parent.parent", repr(par)[:80])
                            elif not toks and par is not None:
                                bad = ("resolve_parent.root", repr(par)[:80])
                            elif ue and ptrmod.resolve(text, doc) is not exp[1]:
                                bad = ("module.resolve", None)
                    except Exception as e:  # noqa: BLE001
                        bad = ("exception", "%s: %s" % (type(e).__name__, e))
            else:
                if got[0] != "cannot":
                    bad = ("resolve", got)
                else:
                    try:
                        if p.exists(doc) is not False:
                            bad = ("exists", True)
                        elif p.resolve(doc, default=SENTINEL) is not SENTINEL:
                            bad = ("default", None)
                        elif ue and ptrmod.resolve(text, doc, default=SENTINEL) is not SENTINEL:
                            bad = ("module.default", None)
                    except Exception as e:  # noqa: BLE001
                        bad = ("exception", "%s: %s" % (type(e).__name__, e))
        acc.case(sub, (text, ue, ckey(doc)), outcome=(exp[0], ckey(exp[1]) if exp[0] == "value" else None),
                 nontrivial=bool(toks))
        acc.count("%s.%s" % (sub, exp[0]))
        if acc.evals % 3000 == 1:
            acc.sample(sub, {"doc": doc, "pointer": text, "unicode_escape": ue, "expected": exp[0]})
        if bad:
            acc.violation(sub, bad[0], {"doc": doc, "tokens": toks, "pointer": text, "unicode_escape": ue},
                          expected=exp[0] if exp[0] == "cannot" else ["value", exp[1]],
                          observed=bad[1] if not isinstance(bad[1], tuple) else list(bad[1]), note=note)


REQUIRE = {"P.value": 1000, "N.value": 100, "N.cannot": 1000, "N.excluded": 10}


def check_case(sub, case, acc):
    _check(sub, case["doc"], case["tokens"], acc)


def shrink(sub, case):
    doc, toks = case["doc"], case["tokens"]
    # drop a leading token by descending into the document
    if toks:
        try:
            sub_doc = rptr.step(doc, toks[0])
            yield {"doc": sub_doc, "tokens": toks[1:]}
        except rptr.CannotEvaluate:
            pass
    # remove members/elements not on the path (keep indices stable: only trailing elements / other keys)
    if isinstance(doc, dict):
        for k in list(doc):
            if not toks or k != toks[0]:
                yield {"doc": {k2: v for k2, v in doc.items() if k2 != k}, "tokens": toks}
    if isinstance(doc, list) and doc:
        yield {"doc": doc[:-1], "tokens": toks}
    if toks:
        yield {"doc": doc, "tokens": toks[:-1]}
        last = toks[-1]
        for i in range(len(last)):
            yield {"doc": doc, "tokens": toks[:-1] + [last[:i] + last[i + 1:]]}


def _tok_class(t):
    if rptr.canonical_index(t) is not None:
        return "index"
    out = []
    for ch in t:
        if ch.isascii() and ch.isdigit():
            c = "9"
        elif ch.isascii() and ch.isalpha():
            c = "a"
        elif ch.isdigit():
            c = "udigit"
        elif ord(ch) > 0xFFFF:
            c = "astral"
        elif ord(ch) >= 0x80:
            c = "u"
        elif ch == " ":
            c = "sp"
        elif ord(ch) < 0x20:
            c = "ctl"
        else:
            c = ch
        if not out or out[-1] != c:
            out.append(c)
    return "".join(out) or "empty"


def signature(sub, case, v):
    doc, toks = case["doc"], case["tokens"]
    cur = doc
    fail_on = "-"
    for t in toks:
        try:
            cur = rptr.step(cur, t)
        except rptr.CannotEvaluate:
            fail_on = type_tag(cur)
            break
    obs = v.get("observed")
    if isinstance(obs, str):
        obs = re.sub(r"[^A-Za-z:]+", " ", obs)[:30]
    elif isinstance(obs, list):
        obs = obs[0]
    return "C04.%s.%s.tok(%s).on-%s.ue=%s.%s" % (
        sub, v["kind"], _tok_class(toks[-1]) if toks else "root", fail_on if fail_on != "-" else type_tag(cur),
        case.get("unicode_escape"), obs)
