#!/bin/bash
# tools/mut.sh <patch-file|-> <ID> [tier]  : apply a patch to a scratch copy of /repo, run the repo's tests and a check there.
# The scratch copy lives under /tmp and is removed afterwards.  A patch on stdin ('-') is also accepted.
set -u
P="$1"; ID="$2"; TIER="${3:-quick}"
D=$(mktemp -d /tmp/mut.XXXXXX)
trap 'rm -rf "$D"' EXIT
rsync -a --exclude .git --exclude __pycache__ /repo/ "$D/"
if [ "$P" = "-" ]; then patch -s -p1 -d "$D" || exit 3; else patch -s -p1 -d "$D" < "$P" || exit 3; fi
( cd "$D" && /venv/bin/python -m pytest -q -p no:cacheprovider --continue-on-collection-errors 2>&1 | tail -1 )
for id in $ID; do
  VERIF_REPO="$D" /verif/check "$id" "$TIER" 2>&1 | grep -E "VIOLATION|HARNESS|KNOWN|wall=" | cut -c1-400
done
