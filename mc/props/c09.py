"""C09 - evaluation is pure: read-only, repeatable, unaffected by caching or interleaving.

(H) E-HIST: every history over {open a lazy iterator on document i, advance iterator j,
findall on document i, recompile, findall in the other caching mode} up to a depth bound,
iterator interleavings enumerated completely (no state merging);
(TASK) E-SCHED over coroutine tasks sharing a compiled query, caching on and off;
(THR) E-SCHED over 2 OS threads serialised by a baton (scheduling points at every Python
call inside jsonpath.*) sharing a compiled query / an environment, plus a free-running pass.
"""
import threading

from .. import sched
from ..jsonutil import ckey, deep_copy, jeq_ordered
from ..run import REPO
from .common import chunks

ID = "C09"
RULE = (
    "H: 15 queries mixing cacheable sub-expressions (root- and context-rooted queries, constants, functions of them, nested "
    "filters inside root paths) with per-node ones (current node, current key) x 2 documents that differ exactly in the cached "
    "part x 2 filter contexts x {caching on, off}: every history of depth<=4 with caching on (3 with caching off; all depth-5 histories of one query chosen by VERIF_SEED; thorough 5 with caching and 4 without, and 6 for 3 queries) over the letters "
    "{open iterator on doc i, advance iterator j (<=3 live), findall(doc i), findall(doc i) under the other filter context, swap the two documents' contents in place, recompile, findall in the other caching mode}; every "
    "(HT: every history of depth<=3 (5) over {evaluate the JSON text of doc i, evaluate it as a file object, findall, open/advance one iterator}, the caller scribbling over everything a text evaluation returned); every observation equals a fresh compile evaluated once on a deep copy in a fresh non-caching environment; documents, filter "
    "contexts and the compiled query's public surface unchanged; TASK: 6 coroutine harnesses x {caching on, off}, <=1 (thorough 3, or 2 with three tasks) "
    "preemptions; THR: 4 two-thread harnesses, every schedule with <=1 (thorough 2 on the first harness) preemptions at call granularity, plus 200 free-running runs. "
    "state = distinct history or schedule; non-trivial = history advances an iterator after another evaluation started"
)
ASSUMPTIONS = [
    "reference = a fresh compile in a fresh JSONPathEnvironment(filter_caching=False) evaluated once on a deep copy",
    "only public observables of a compiled query are compared (str, ==, hash, behaviour on a probe document)",
    "thread preemption points are Python function calls / generator resumptions inside jsonpath.*; finer preemption is covered "
    "only by the free-running sanity pass (no memory-model effects exist under the GIL)",
]

D1 = {"k": 1, "key": "p", "l": [1, 2], "a": [{"x": 1, "n": 2, "t": [7]}, {"x": 2, "n": 3, "t": []}, {"x": 3, "n": 1}], "o": {"p": 1, "q": 2, "r": 1}}
D2 = {"k": 2, "key": "q", "l": [2], "a": [{"x": 1, "n": 2, "t": [7]}, {"x": 2, "n": 3, "t": []}, {"x": 3, "n": 1}], "o": {"p": 1, "q": 2, "r": 1}}
# 'm': subjects and patterns for match()/search(); D1 holds a valid pattern, D2 the same invalid pattern twice in a row
D1["m"] = [{"s": "x", "re": "x"}, {"s": "xy", "re": "x."}]
D2["m"] = [{"s": "x", "re": "("}, {"s": "x", "re": "("}, {"s": "x", "re": "x"}]
# 'sh' / 'sh2' hold equal arrays; in the live documents of a history they are one and the same Python object (a value
# may sit in two places of a document built from Python objects), in the reference they are separate copies
D1["sh"] = [1, 2, [1]]
D1["sh2"] = [1, 2, [1]]
D2["sh"] = [1, 2, [2]]
D2["sh2"] = [1, 2, [2]]
DOCS = [D1, D2]
CTX = [{"lim": 1, "xs": [1, 2]}, {"lim": 2, "xs": [2, 3]}]
QUERIES = [
    "$.a[?@.x == $.k]", "$.a[?@.x > _.lim]", "$.a[?count($.a.*) == @.n]", "$.o[?# == $.key]", "$.a[?@.x in $.l]",
    "$.a[?$.l[?@ == $.k]]", "$.a[?1 == 1 && @.x != $.k]", "$.a[?length($.l) == @.n]", "$..[?@.x == $.k || @ == $.k]",
    "$.a[?@.x == $.k] | $.l[?@ == _.lim]",
    # a per-node path whose nested filter is itself cacheable (references only $ / constants)
    "$.a[?@.t[?$.k == 1]]", "$.a[?count(@.t[?$.k == 1 || 1 == 1]) == @.x]",
    # regular-expression functions whose pattern comes from the document (the function objects are shared by the environment)
    "$.m[?match(@.s, @.re)]", "$.m[?search(@.s, @.re) || match(@.re, $.key)]",
    # a context query whose nested filter refers to the document ($ must be the document of *this* evaluation)
    "$.a[?count(_.xs[?@ == $.k]) == @.x]",
]
PROBE = {"k": 3, "key": "r", "l": [3, 3, 3], "a": [{"x": 3, "n": 3}, {"x": 1, "n": 1}], "o": {"r": 5}}


def selftest():
    return 0


def bounds(tier, seed):
    return {"queries": len(QUERIES), "history_depth": "caching on: 4; caching off: 3; all depth-5 histories of one query chosen by VERIF_SEED" if tier == "quick" else "caching on: 5; caching off: 4; 6 for 3 queries", "max_live_iterators": 3,
            "task_preemptions": 1 if tier == "quick" else "3 (two tasks) / 2 (three tasks)",
            "thread_preemptions": 1 if tier == "quick" else "2 on the first harness, 1 on the others"}


def letters(n_live):
    out = [("open", 0), ("open", 1), ("findall", 0), ("findall", 1), ("recompile", None), ("other", 0), ("other", 1),
           ("ctx2", 0), ("ctx2", 1)]
    for j in range(n_live):
        out.append(("adv", j))
    if n_live == 0:
        # edit the documents in place between evaluations (only while no lazy iterator is open on them)
        out.append(("swap", None))
    return out


N_FIRST = 9  # letters available in the initial state, excluding swap (a swap first is covered as a second letter)


def plan(tier, seed):
    shards = []
    for qi in range(len(QUERIES)):
        for caching in (True, False):
            if tier == "quick":
                depth = 4 if caching else 3
            else:
                depth = 5 if caching else 4
            for first in range(N_FIRST):
                shards.append(("H", qi, caching, first, depth))
    if tier == "quick":
        # one complete deeper block chosen by the seed: all depth-5 histories of one query starting with one letter pair
        qi = seed % len(QUERIES)
        for first in range(N_FIRST):
            for second in range(11):
                shards.append(("H6", qi, True, first, second, 5))
    else:
        for qi in (0, 5, 14):
            for first in range(N_FIRST):
                for second in range(11):
                    shards.append(("H6", qi, True, first, second, 6))
    for qi in range(len(QUERIES)):
        shards.append(("HT", qi, 3 if tier == "quick" else 5))
    for hi, h in enumerate(task_harnesses()):
        for caching in (True, False):
            # thorough: 3 preemptions for two tasks, 2 for three tasks (measured: 3 on three tasks is a 15-minute shard)
            shards.append(("TASK", hi, caching, 1 if tier == "quick" else (3 if len(h) == 2 else 2)))
    for hi in range(len(thread_harnesses())):
        # thorough: 2 preemptions on the first harness only (every call inside jsonpath is a scheduling point: two
        # preemptions on the larger harnesses are 20-minute shards)
        shards.append(("THR", hi, 1 if tier == "quick" or hi > 0 else 2))
    shards.append(("FREE", 200 if tier == "quick" else 2000))
    # long sequential shards first, so that they do not become the tail of the run
    order = {"THR": 0, "FREE": 1, "TASK": 2}
    shards.sort(key=lambda s: order.get(s[0], 3))
    return shards


_REF = {}


def reference(text, di, ci):
    import jsonpath

    key = (text, di, ci)
    if key not in _REF:
        env = jsonpath.JSONPathEnvironment(filter_caching=False)
        p = env.compile(text)
        _REF[key] = [(ckey(m.obj), m.path) for m in p.finditer(deep_copy(DOCS[di]) if di >= 0 else deep_copy(PROBE), filter_context=deep_copy(CTX[ci]))]
    return _REF[key]


def _enum(state, hist, depth, visit):
    """state = tuple of (doc index, position) per live iterator (exhausted iterators stay live)."""
    visit(hist)
    if len(hist) >= depth:
        return
    for op, arg in letters(len(state)):
        if op == "open" and len(state) >= 3:
            continue
        if op == "swap" and len(state) > 0:
            continue
        if op == "open":
            ns = state + ((arg, 0),)
        elif op == "adv":
            di, pos = state[arg]
            ns = state[:arg] + ((di, pos + 1),) + state[arg + 1:]
        else:
            ns = state
        hist.append([op, arg])
        _enum(ns, hist, depth, visit)
        hist.pop()


def run_shard(shard, acc):
    kind = shard[0]
    if kind == "H":
        _, qi, caching, first, depth = shard
        op, arg = letters(0)[first]
        st = ((arg, 0),) if op == "open" else ()
        _enum(st, [[op, arg]], depth, lambda h: _history(qi, caching, h, acc))
        if first == 0:
            _history(qi, caching, [], acc)
    elif kind == "H6":
        _, qi, caching, first, second, depth = shard
        op, arg = letters(0)[first]
        st = ((arg, 0),) if op == "open" else ()
        ls = letters(len(st))
        if second >= len(ls):
            return
        op2, arg2 = ls[second]
        if op2 == "open":
            st2 = st + ((arg2, 0),)
        elif op2 == "adv":
            st2 = ((st[0][0], 1),)
        else:
            st2 = st
        _enum(st2, [[op, arg], [op2, arg2]], depth, lambda h: _history(qi, caching, h, acc))
    elif kind == "HT":
        # documents given as JSON text / file objects: what an evaluation returns belongs to the caller, who may edit it
        import itertools

        _, qi, depth = shard
        lt = [("text", 0), ("text", 1), ("file", 0), ("findall", 0), ("open", 0), ("adv", 0)]
        for caching in (True, False):
            for n in range(1, depth + 1):
                for h in itertools.product(lt, repeat=n):
                    live = 0
                    ok = True
                    for op, arg in h:
                        if op == "open":
                            live += 1
                            if live > 1:
                                ok = False
                        elif op == "adv" and live == 0:
                            ok = False
                    if ok:
                        _history(qi, caching, [list(x) for x in h], acc, sub="HT")
    elif kind == "TASK":
        _, hi, caching, bound = shard
        _tasks(hi, caching, bound, acc)
    elif kind == "THR":
        _, hi, bound = shard
        _threads(hi, bound, acc)
    elif kind == "FREE":
        _free(shard[1], acc)


_ENVS = {}


def _env(caching):
    import jsonpath

    if caching not in _ENVS:
        _ENVS[caching] = jsonpath.JSONPathEnvironment(filter_caching=caching)
    return _ENVS[caching]


def _scribble(values, root):
    """The caller edits what an evaluation of a JSON text returned (its own parse product)."""
    for v in values:
        if isinstance(v, dict):
            v["scribble"] = 1
        elif isinstance(v, list):
            v.append("scribble")
    if isinstance(root, dict):
        for k in list(root):
            if isinstance(root[k], list):
                root[k].insert(0, "scribble")
            elif isinstance(root[k], dict):
                root[k]["scribble"] = 1
            else:
                root[k] = "scribble"


def _history(qi, caching, hist, acc, record=True, sub="H"):
    text = QUERIES[qi]
    ci = qi % 2
    env = _env(caching)
    other = _env(not caching)
    docs = [deep_copy(d) for d in DOCS]
    for d in docs:
        d["sh2"] = d["sh"]  # aliased containers: the result is a function of the document's value, not of object identity
    snaps = [deep_copy(d) for d in DOCS]
    ctx = deep_copy(CTX[ci])
    ctx_snap = deep_copy(CTX[ci])
    content = [0, 1]  # which reference document each live document object currently equals
    bad = None
    nontrivial = False
    evaluated_since_open = False
    try:
        p = env.compile(text)
        p_str = str(p)
        live = []  # (iterator, doc index, position)
        for si, (op, arg) in enumerate(hist):
            if op == "open":
                live.append([iter(p.finditer(docs[arg], filter_context=ctx)), arg, 0])
            elif op == "adv":
                it, di, pos = live[arg]
                ref = reference(text, content[di], ci)
                try:
                    m = next(it)
                    got = (ckey(m.obj), m.path)
                except StopIteration:
                    got = None
                want = ref[pos] if pos < len(ref) else None
                live[arg][2] = pos + 1
                if len(live) > 1 or evaluated_since_open:
                    nontrivial = True
                if got != want:
                    bad = ("step%d.advance" % si, want, got)
                    break
            elif op == "findall":
                evaluated_since_open = True
                got = [(ckey(m.obj), m.path) for m in p.finditer(docs[arg], filter_context=ctx)]
                if got != reference(text, content[arg], ci) or [g[0] for g in got] != [ckey(v) for v in p.findall(docs[arg], filter_context=ctx)]:
                    bad = ("step%d.findall" % si, reference(text, content[arg], ci), got)
                    break
            elif op in ("text", "file"):
                import io
                import json

                evaluated_since_open = True
                t = json.dumps(docs[arg])
                ms = list(p.finditer(t if op == "text" else io.StringIO(t), filter_context=ctx))
                got = [(ckey(m.obj), m.path) for m in ms]
                vals = p.findall(t if op == "text" else io.BytesIO(t.encode()), filter_context=ctx)
                if got != reference(text, content[arg], ci) or [g[0] for g in got] != [ckey(v) for v in vals]:
                    bad = ("step%d.findall-%s" % (si, op), reference(text, content[arg], ci), got)
                    break
                _scribble([m.obj for m in ms] + list(vals), ms[0].root if ms else None)
            elif op == "other":
                evaluated_since_open = True
                got = [(ckey(m.obj), m.path) for m in other.compile(text).finditer(docs[arg], filter_context=ctx)]
                if got != reference(text, content[arg], ci):
                    bad = ("step%d.other-caching-mode" % si, reference(text, content[arg], ci), got)
                    break
            elif op == "ctx2":
                evaluated_since_open = True
                ctx_b = deep_copy(CTX[1 - ci])
                got = [(ckey(m.obj), m.path) for m in p.finditer(docs[arg], filter_context=ctx_b)]
                if got != reference(text, content[arg], 1 - ci):
                    bad = ("step%d.other-filter-context" % si, reference(text, content[arg], 1 - ci), got)
                    break
                if not jeq_ordered(ctx_b, CTX[1 - ci]):
                    bad = ("step%d.filter-context-modified" % si, CTX[1 - ci], ctx_b)
                    break
            elif op == "swap":
                a, b = deep_copy(docs[0]), deep_copy(docs[1])
                docs[0].clear(); docs[0].update(b)
                docs[1].clear(); docs[1].update(a)
                snaps = [deep_copy(d) for d in docs]
                content = [content[1], content[0]]
            elif op == "recompile":
                p2 = env.compile(text)
                if not (p2 == p) or hash(p2) != hash(p) or str(p2) != p_str:
                    bad = ("step%d.recompile-not-equal" % si, p_str, str(p2))
                    break
                p = p2
            if any(not jeq_ordered(d, s) for d, s in zip(docs, snaps)):
                bad = ("step%d.document-modified" % si, snaps, docs)
                break
            if not jeq_ordered(ctx, ctx_snap):
                bad = ("step%d.filter-context-modified" % si, ctx_snap, ctx)
                break
        if bad is None:
            for j, (it, di, pos) in enumerate(live):
                ref = reference(text, content[di], ci)
                rest = [(ckey(m.obj), m.path) for m in it]
                if rest != ref[pos:]:
                    bad = ("drain%d" % j, ref[pos:], rest)
                    break
        if bad is None:
            if str(p) != p_str or not (p == env.compile(text)):
                bad = ("query-changed", p_str, str(p))
            else:
                got = [(ckey(m.obj), m.path) for m in p.finditer(deep_copy(PROBE), filter_context=deep_copy(CTX[ci]))]
                if got != reference(text, -1, ci):
                    bad = ("probe-behaviour-changed", reference(text, -1, ci), got)
            if bad is None and (any(not jeq_ordered(d, s) for d, s in zip(docs, snaps)) or not jeq_ordered(ctx, ctx_snap)):
                bad = ("document-or-context-modified-at-end", None, None)
    except Exception as e:  # noqa: BLE001
        bad = ("exception", "no exception", "%s: %s" % (type(e).__name__, e))
    if record:
        acc.case(sub, (qi, caching, tuple(map(tuple, hist))), outcome=(qi, len(hist)), nontrivial=nontrivial or sub == "HT", trans=len(hist) + 2)
        for op, _ in hist:
            acc.count("H." + op)
        if nontrivial:
            acc.count("H.interleaved")
        if acc.evals % 6000 == 1:
            acc.sample("H", {"query": text, "caching": caching, "history": [list(h) for h in hist]})
    if bad:
        acc.violation("H", bad[0].split(".", 1)[-1], {"query": qi, "text": text, "caching": caching, "history": [list(h) for h in hist]},
                      expected=_short(bad[1]), observed=_short(bad[2]), note=bad[0])


def _short(x):
    r = repr(x)
    return r if len(r) < 400 else r[:400] + "..."


# ---------------------------------------------------------------------------- tasks


def task_harnesses():
    return [
        [(0, 0), (0, 1)], [(5, 0), (5, 1), (5, 0)], [(1, 0), (1, 1)], [(2, 0), (7, 1)], [(9, 0), (9, 1)], [(8, 1), (8, 0), (3, 1)],
    ]


def _tasks(hi, caching, bound, acc, record=True, only=None):
    import jsonpath

    specs = task_harnesses()[hi]
    want = [[x[0] for x in reference(QUERIES[qi], di, qi % 2)] for qi, di in specs]

    def make():
        # everything is rebuilt per execution so that executions are independent and prefixes replay exactly;
        # within one execution the tasks share the environment and the compiled queries
        env = jsonpath.JSONPathEnvironment(filter_caching=caching)
        compiled = {}
        docs = []
        for qi, di in specs:
            if qi not in compiled:
                compiled[qi] = env.compile(QUERIES[qi])
            docs.append(sched.wrap(deep_copy(DOCS[di])))
        coros = []
        for (qi, di), d in zip(specs, docs):
            async def t(p=compiled[qi], d=d, fc=CTX[qi % 2]):
                out = []
                async for m in await p.finditer_async(d, filter_context=fc):
                    out.append(ckey(sched.unwrap(m.obj)))
                return out
            coros.append(t())
        return coros

    def on_result(s, res):
        if record:
            acc.case("TASK", (hi, caching, tuple(s.choices())), outcome="ok", nontrivial=s.preemptions() > 0, trans=len(s.points))
            acc.count("TASK.schedules")
            if acc.evals % 500 == 1:
                acc.sample("TASK", {"harness": hi, "caching": caching, "schedule": s.choices()})
        for i, r in enumerate(res):
            if r[0] != "ok" or r[1] != want[i]:
                acc.violation("TASK", "task-result-differs", {"harness": hi, "caching": caching, "schedule": s.choices(), "task": i},
                              expected=_short(want[i]), observed=_short(r))
                return

    if only is not None:
        s = sched.Schedule(only)
        on_result(s, sched.execute_tasks(make, s))
        return
    st = sched.explore(lambda s: sched.execute_tasks(make, s), bound, on_result)
    acc.info.setdefault("task_harness_%d_caching_%s" % (hi, caching), st)


# ---------------------------------------------------------------------------- threads


def thread_harnesses():
    """(name, factory) ; factory(env) -> (list of callables, list of expected results)"""
    def shared_findall(env):
        p = env.compile(QUERIES[0])
        d = [deep_copy(DOCS[0]), deep_copy(DOCS[1])]
        fns = [lambda: [ckey(v) for v in p.findall(d[0])], lambda: [ckey(v) for v in p.findall(d[1])]]
        return fns, [[x[0] for x in reference(QUERIES[0], 0, 0)], [x[0] for x in reference(QUERIES[0], 1, 0)]]

    def shared_nested(env):
        p = env.compile(QUERIES[5])
        d = [deep_copy(DOCS[0]), deep_copy(DOCS[1])]
        fns = [lambda: [ckey(v) for v in p.findall(d[0], filter_context=CTX[1])], lambda: [ckey(v) for v in p.findall(d[1], filter_context=CTX[1])]]
        return fns, [[x[0] for x in reference(QUERIES[5], 0, 1)], [x[0] for x in reference(QUERIES[5], 1, 1)]]

    def compile_compile(env):
        a, b = QUERIES[0], QUERIES[3]
        fns = [lambda: str(env.compile(a)), lambda: str(env.compile(b))]
        import jsonpath
        fresh = jsonpath.JSONPathEnvironment()
        return fns, [str(fresh.compile(a)), str(fresh.compile(b))]

    def compile_findall(env):
        p = env.compile(QUERIES[9])
        d = deep_copy(DOCS[0])
        b = QUERIES[2]
        fns = [lambda: [ckey(v) for v in p.findall(d, filter_context=CTX[1])], lambda: [ckey(v) for v in env.compile(b).findall(deep_copy(DOCS[1]))]]
        return fns, [[x[0] for x in reference(QUERIES[9], 0, 1)], [x[0] for x in reference(QUERIES[2], 1, 0)]]

    return [("shared-findall", shared_findall), ("shared-nested", shared_nested), ("compile-compile", compile_compile),
            ("compile-findall", compile_findall)]


def _threads(hi, bound, acc, record=True, only=None):
    import jsonpath

    name, factory = thread_harnesses()[hi]
    root = REPO.rstrip("/") + "/jsonpath"
    state = {}

    def execute(s):
        env = jsonpath.JSONPathEnvironment()
        fns, want = factory(env)
        state["want"] = want
        return sched.execute_threads(lambda: fns, s, root)

    def on_result(s, res):
        want = state["want"]
        if record:
            acc.case("THR", (hi, tuple(s.choices())), outcome="ok", nontrivial=s.preemptions() > 0, trans=len(s.points))
            acc.count("THR.schedules")
            if acc.evals % 100 == 1:
                acc.sample("THR", {"harness": name, "points": len(s.points), "preemptions": s.preemptions(),
                                   "switch_positions": [i for i, (en, c, r) in enumerate(s.points) if r in en and c != r]})
        for i, r in enumerate(res):
            if r is None or r[0] != "ok" or r[1] != want[i]:
                acc.violation("THR", "thread-result-differs", {"harness": hi, "name": name, "schedule": s.choices(), "thread": i},
                              expected=_short(want[i]), observed=_short(r))
                return

    if only is not None:
        s = sched.Schedule(only)
        on_result(s, execute(s))
        return
    st = sched.explore(execute, bound, on_result)
    acc.info.setdefault("thread_harness_%s" % name, st)


def _free(n, acc):
    """Sanity pass: the same bodies on free-running threads, results compared with the sequential ones."""
    import jsonpath

    for hi, (name, factory) in enumerate(thread_harnesses()):
        for k in range(n // 4):
            env = jsonpath.JSONPathEnvironment()
            fns, want = factory(env)
            res = [None] * len(fns)

            def body(i):
                try:
                    res[i] = ("ok", fns[i]())
                except Exception as e:  # noqa: BLE001
                    res[i] = ("exc", type(e).__name__, str(e))

            ts = [threading.Thread(target=body, args=(i,)) for i in range(len(fns))]
            for t in ts:
                t.start()
            for t in ts:
                t.join()
            acc.case("FREE", (hi, k), outcome="ok", nontrivial=True)
            acc.count("FREE.runs")
            for i, r in enumerate(res):
                if r[0] != "ok" or r[1] != want[i]:
                    acc.violation("FREE", "free-running-thread-result-differs", {"harness": hi, "name": name, "run": k},
                                  expected=_short(want[i]), observed=_short(r))
                    return


REQUIRE = {"H.open": 1000, "H.adv": 1000, "H.findall": 1000, "H.recompile": 1000, "H.other": 1000, "H.interleaved": 1000, "H.ctx2": 1000, "H.swap": 100,
           "TASK.schedules": 50, "THR.schedules": 100, "FREE.runs": 100}


def check_case(sub, case, acc):
    if sub == "H":
        _history(case["query"], case["caching"], case["history"], acc, record=False)
    elif sub == "TASK":
        _tasks(case["harness"], case["caching"], 0, acc, record=False, only=case["schedule"])
    elif sub == "THR":
        _threads(case["harness"], 0, acc, record=False, only=case["schedule"])


def shrink(sub, case):
    if sub != "H":
        return
    h = case["history"]
    for i in range(len(h)):
        cand = h[:i] + h[i + 1:]
        if _valid(cand):
            c = dict(case)
            c["history"] = cand
            yield c


def _valid(hist):
    live = 0
    for op, arg in hist:
        if op == "open":
            live += 1
            if live > 3:
                return False
        elif op == "adv" and arg >= live:
            return False
        elif op == "swap" and live > 0:
            return False
    return True


def signature(sub, case, v):
    if sub == "H":
        ops = "-".join(h[0] for h in case["history"])
        return "C09.H.%s.q%d.%s.%s" % (v["kind"], case["query"], "cache" if case["caching"] else "nocache", ops)
    return "C09.%s.%s.%s" % (sub, v["kind"], case.get("name", case.get("harness")))
