"""C13 - documented non-standard syntax means what the documentation says.

(X) each extension construct placed in every syntactic position the grammar allows,
evaluated on documents covering every JSON type, against the reference model (rext =
the extension clauses of mc.ref.rpath / rfilter); (A) every alias spelling compared
differentially with its standard spelling on every document.
"""
import itertools

from .. import univ
from ..gen import spell
from ..jsonutil import ckey, jeq, jeq_list
from ..ref import rpath, selftest_path
from ..ref.rpath import C, D, F, I, K, N, Q, S, W
from .common import chunks, shrink_doc, tup

ID = "C13"
RULE = (
    "X: keys selector, fake root, current-key, filter-context (3 context mappings), in/contains (arrays, strings, object keys), "
    "=~ with every subset of flags, undefined/missing - each in every position (alone, in lists, after descendant segments, "
    "nested in filters, as function arguments) on 16 documents covering every JSON type, against the reference model; "
    "A: every alias (rootless queries, bare names in brackets, <>, and/or/not, nil/none/capitalised literals, undefined/missing) "
    "rendered over all queries of a 150-query pool and compared with the standard spelling on every document. "
    "state = distinct (query text, document, filter context); non-trivial = non-empty reference result"
)
ASSUMPTIONS = [
    "reference model: extension clauses of mc/ref/rpath.py (keys, ^, _) and rfilter.py (#, in/contains, =~, undefined)",
    "membership universes contain no 1/true/1.0 collisions (either reading of equality gives the same answer)",
    "regex literals from a fixed pool on which flags have a documented, engine-independent effect",
]


def at(*s):
    return Q(*s, root="@")


def ctx(*s):
    return Q(*s, root="_")


def fr(*s):
    return Q(*s, root="^")


def L(v):
    return ("lit", v)


def qa(*s):
    return ("q", at(*s))


def qr(*s):
    return ("q", Q(*s))


def qc(*s):
    return ("q", ctx(*s))


def call(n, *a):
    return ("call", n, list(a))


KEY = ("key",)
UNDEF = ("undef", "undefined")
MISSING = ("undef", "missing")

KIDS = [None, True, False, 0, 1, 2, 3.5, "", "a", "ab", "a\nb", "é", [], [2], ["a", 2], {}, {"a": 2}, {"a": "ab", "b": 3},
        {"b": {"a": 2}}, [[2]], {"a": [2, "a"]}, "A", {"lim": 1}]


def docs():
    arr = list(KIDS)
    obj = {"k%d" % i: v for i, v in enumerate(KIDS)}
    obj2 = {"a": 2, "b": "a", "ab": [2], "c": {"a": 1}}
    return [
        {"k": 2, "s": "a", "l": [2, "a", ["x"]], "o": {"a": 1, "ab": 2}, "arr": arr, "ll": [[], [2], 1, False, {}]},
        {"k": 2, "s": "a", "l": [2, "a", ["x"]], "o": {"a": 1, "ab": 2}, "arr": obj, "ll": [[], 0, True]},
        {"k": 2, "s": "ab", "l": [], "o": {}, "arr": obj2},
        [[2, 3], {"a": 2}, "a"],
        {"a": {"a": {"a": 2}}, "b": [{"a": 3}, {"b": 4}]},
        [],
        {},
        # member names that begin with a reserved word, or with the filter-context identifier, followed by further name
        # characters (docs/syntax.md reserves only names that match a word exactly)
        {"in-stock": 1, "and-so": 2, "true-north": 3, "null-x": 4, "nil-z": 5, "or-else": 6, "_foo": 7, "contains-x": 9,
         "undefined-x": 10, "missing-y": 11, "False-w": 12, "None-q": 13, "not-x": 14, "arr": ["a/b", "ab", "a[/]b"],
         # (a member named like a word operator directly followed by a negative number)
         "w": {"in-1": 1, "or-1": 2, "b": -1}},
    ]


CONTEXTS = [None, {}, {"lim": 2, "flag": True, "xs": [2, 3], "name": "a", "o": {"lim": 3}}]


def constructs():
    """(tag, query AST)"""
    out = []
    A = C(N("arr"))
    # keys selector
    for q in (Q(C(K)), Q(D(K)), Q(A, C(K)), Q(C(K, N("k"))), Q(C(N("k"), K)), Q(C(W), C(K)), Q(C(W), D(K)), Q(C(I(0), K)),
              Q(A, C(F(("test", at(C(K)))))), Q(A, C(F(("cmp", "==", call("count", qa(C(K))), L(2))))),
              Q(A, C(F(("test", at(D(K)))))), Q(A, C(W), C(K)), Q(C(K), C(K)), Q(C(K), C(W)), Q(C(K), C(I(0))),
              Q(A, C(F(("cmp", "==", call("value", qa(C(K))), L("a")))))):
        out.append(("keys", q))
    # fake root
    for q in (fr(), fr(C(I(0))), fr(C(W)), fr(C(F(("test", at(C(N("k"))))))), fr(C(F(("cmp", "==", qa(C(N("k"))), L(2))))),
              fr(C(F(("cmp", ">", call("length", qa()), L(1))))), fr(D(N("a"))), fr(C(I(0)), C(N("arr"))), fr(C(I(1))),
              fr(C(F(("test", at(C(I(0))))))), Q(A, C(F(("cmp", "==", qa(), ("q", fr(C(I(0)), C(N("k"))))))))):
        out.append(("fake-root", q))
    # current key
    for e in (("cmp", "==", KEY, L("k1")), ("cmp", "==", KEY, L(1)), ("cmp", ">", KEY, L(2)), ("cmp", "==", KEY, qa()),
              ("cmp", "<", KEY, qr(C(N("k")))), call("match", KEY, L("k1.*")), ("cmp", "==", call("length", KEY), L(2)),
              ("and", ("cmp", ">=", KEY, L(1)), ("test", at(C(N("a"))))), ("cmp", "in", KEY, ("list", [1, "k2"])),
              ("test", at(C(F(("cmp", "==", KEY, L(0)))))), ("test", at(C(F(("cmp", "==", KEY, L("a")))))),
              ("cmp", "==", KEY, UNDEF)):
        out.append(("key", Q(A, C(F(e)))))
        out.append(("key", Q(D(F(e)))))
    # filter context
    for e in (("cmp", ">", qa(), qc(C(N("lim")))), ("test", ctx(C(N("flag")))), ("test", ctx(C(N("nope")))),
              ("cmp", "==", call("length", qc(C(N("xs")))), L(2)), ("cmp", "in", qa(), qc(C(N("xs")))),
              ("cmp", "==", qa(), qc(C(N("name")))), ("cmp", "<", qa(), qc(C(N("o")), C(N("lim")))),
              ("test", at(C(F(("cmp", ">", qa(), qc(C(N("lim")))))))),
              ("cmp", ">", call("count", qr(C(N("l")), C(F(("cmp", "==", qa(), qc(C(N("lim")))))))), L(0)),
              ("test", ctx(C(N("xs")), C(F(("cmp", ">", qa(), qc(C(N("lim")))))))),
              ("cmp", "==", qc(C(N("lim"))), qr(C(N("k")))), ("test", ctx()),
              # $ inside a filter of a context query is still the document
              ("test", ctx(C(N("xs")), C(F(("cmp", ">", qa(), qr(C(N("k")))))))),
              ("cmp", "==", call("count", qc(C(N("xs")), C(F(("cmp", "==", qa(), qr(C(N("k")))))))), L(1)),
              ("test", ctx(C(N("xs")), C(F(("cmp", "==", qa(), qc(C(N("lim")))))))),
              ("test", ctx(C(N("o")), C(F(("test", Q(C(N("s"))))))))):
        out.append(("context", Q(A, C(F(e)))))
    # in / contains
    for e in (("cmp", "in", qa(), ("list", [2, "a"])), ("cmp", "in", qa(), qr(C(N("l")))), ("cmp", "contains", qr(C(N("l"))), qa()),
              ("cmp", "in", L("a"), qa()), ("cmp", "contains", qa(), L("a")), ("cmp", "in", qr(C(N("s"))), qa()),
              ("cmp", "contains", qa(), qr(C(N("s")))), ("cmp", "in", qa(), qr(C(N("o")))), ("cmp", "contains", qr(C(N("o"))), qa()),
              ("cmp", "in", qa(C(N("a"))), ("list", [2, "ab"])), ("cmp", "contains", qa(C(N("a"))), L(2)),
              ("cmp", "in", L("b"), qa()), ("not", ("cmp", "in", qa(), ("list", [2, "a"]))),
              ("cmp", "in", qa(), ("list", [])),
              # membership is by JSON equality: a boolean is never a number; an absent value is a member of nothing
              ("cmp", "in", qa(), ("list", [1, 0])), ("cmp", "in", qa(), ("list", [True])), ("cmp", "contains", ("list", [False, 2.0]), qa()),
              ("cmp", "in", qa(C(N("a"))), qr(C(N("ll")))), ("cmp", "contains", qr(C(N("ll"))), qa(C(N("nope")))),
              ("cmp", "in", qa(C(N("nope"))), qr(C(N("ll")))), ("cmp", "in", qa(), qr(C(N("ll")))),
              ("cmp", "in", qa(C(N("nope"))), qa()), ("cmp", "contains", qa(), qa(C(N("nope")))),
              # substrings of more than one character, the empty string, and the whole string
              ("cmp", "in", L("ab"), qa()), ("cmp", "contains", qa(), L("a\nb")), ("cmp", "in", L(""), qa()),
              ("cmp", "contains", qa(), L("b")), ("cmp", "in", L("\nb"), qa()), ("cmp", "contains", L("xaby"), qa())):
        out.append(("membership", Q(A, C(F(e)))))
    # =~ with every subset of flags
    pats = ["a+", "A", "a.b", "^b", "\\w", "ab|a", "a", "a|ab", "a.*?", "a+?b?"]
    for pat in pats:
        for n in range(0, 5):
            for flags in itertools.combinations("aims", n):
                e = ("cmp", "=~", qa(), ("re", pat, "".join(flags)))
                out.append(("regex", Q(A, C(F(e)))))
    out.append(("regex", Q(A, C(F(("cmp", "=~", qa(C(N("a"))), ("re", "a.*", "")))))))
    out.append(("regex", Q(A, C(F(("not", ("cmp", "=~", qa(), ("re", "a", "i"))))))))
    # more than one literal in a query, and a slash in a later string
    out.append(("regex", Q(A, C(F(("or", ("cmp", "=~", qa(), ("re", "a+", "")), ("cmp", "=~", qa(C(N("a"))), ("re", "a.", ""))))))))
    out.append(("regex", Q(A, C(F(("and", ("cmp", "=~", qa(), ("re", "a.*", "i")), ("cmp", "!=", qa(), L("a/b"))))))))
    out.append(("regex", Q(A, C(F(("cmp", "=~", qa(), ("re", "A", "i")))), C(F(("cmp", "=~", qa(), ("re", "a", "")))))))
    # undefined / missing
    for u in (UNDEF, MISSING):
        for e in (("cmp", "==", qa(C(N("a"))), u), ("cmp", "!=", qa(C(N("a"))), u), ("cmp", "==", u, qa(C(N("a")))),
                  ("cmp", "!=", u, qa(C(I(0)))), ("cmp", "==", qr(C(N("nope"))), u), ("cmp", "==", qa(), u),
                  ("and", ("cmp", "==", qa(C(N("b"))), u), ("test", at(C(N("a"))))),
                  ("cmp", "==", call("length", qa(C(N("a")))), u), ("cmp", "==", call("value", qa(C(W))), u)):
            out.append(("undefined", Q(A, C(F(e)))))
    return out


def alias_pairs():
    """(tag, alias text, standard text)"""
    out = []
    std = spell.Opts(full_strings=False)
    pool = []
    A = C(N("arr"))
    atoms = [("test", at(C(N("a")))), ("cmp", "==", qa(C(N("a"))), L(2)), ("cmp", "!=", qa(), L(None)), ("cmp", "==", qa(), L(True)),
             ("cmp", "!=", qa(), L(False)), ("cmp", "<", qa(), L(3)), ("cmp", "!=", qa(C(N("a"))), qr(C(N("k"))))]
    exprs = list(atoms)
    for x in atoms[:4]:
        exprs.append(("not", x))
        for y in atoms[:4]:
            exprs.append(("and", x, y))
            exprs.append(("or", x, y))
            exprs.append(("or", x, ("and", y, ("not", x))))
    for e in exprs:
        pool.append(Q(A, C(F(e))))
    pool += [Q(C(N("k"))), Q(A, C(N("k1"))), Q(C(N("o")), C(N("a"), N("ab"))), Q(D(N("a"))), Q(C(N("arr")), C(W), C(N("a"))),
             Q(C(N("o")), C(W)), Q(C(N("l")), C(I(0))), Q(C(N("arr"), N("k")))]
    variants = [
        ("and/or/not", spell.Opts(full_strings=False, words={"and": "and", "or": "or", "not": "not"})),
        ("<>", spell.Opts(full_strings=False, words={"ne": "<>"})),
    ]
    for name, lits in (("nil", {None: "nil"}), ("none", {None: "none"}), ("Nil", {None: "Nil"}), ("None", {None: "None"}),
                       ("Null", {None: "Null"}), ("True/False", {True: "True", False: "False"})):
        o = spell.Opts(full_strings=False)
        o.lits.update(lits)
        variants.append(("literal:" + name, o))
    ob = spell.Opts(full_strings=False)
    ob.bare = True
    variants.append(("bare-names", ob))
    for q in pool:
        s = spell.text(q, std)
        for tag, o in variants:
            a = spell.text(q, o)
            if a != s:
                out.append((tag, a, s))
        # rootless forms
        if s.startswith("$.") and not s.startswith("$.."):
            out.append(("rootless", s[2:], s))
            out.append(("rootless-dot", s[1:], s))
        elif s.startswith("$["):
            out.append(("rootless", s[1:], s))
    # undefined vs existence
    for path in ("@.a", "@[0]", "@.a.b", "$.nope", "@"):
        for u in ("undefined", "missing"):
            out.append(("undefined", "$.arr[?%s == %s]" % (path, u), "$.arr[?!%s]" % path))
            out.append(("undefined", "$.arr[?%s != %s]" % (path, u), "$.arr[?%s]" % path))
            out.append(("undefined", "$.arr[?%s == %s]" % (u, path), "$.arr[?!%s]" % path))
    # the word operators directly followed by a parenthesis (no blank) are operators, not function calls
    for a_, s_ in (("$.arr[?not(@.a == 2)]", "$.arr[?!(@.a == 2)]"), ("$.arr[?@.a and(@.b)]", "$.arr[?@.a &&(@.b)]"),
                   ("$.arr[?(@.a)or(@.b)]", "$.arr[?(@.a)||(@.b)]"), ("$.arr[?not(@.a)and(not(@.b))]", "$.arr[?!(@.a)&&(!(@.b))]"),
                   ("$.arr[?not (@.a == 2)]", "$.arr[?! (@.a == 2)]"), ("$.arr[?(@.a)and not(@.b)]", "$.arr[?(@.a)&& !(@.b)]")):
        out.append(("and/or/not", a_, s_))
    # queries the typing rules refuse are refused in the alias spelling too
    for a_, s_ in (("$.arr[?@.* <> 2]", "$.arr[?@.* != 2]"), ("$.arr[?2 <> @..a]", "$.arr[?2 != @..a]"),
                   ("$.arr[?match(@.a, 'a') <> true]", "$.arr[?match(@.a, 'a') != true]"),
                   ("$.arr[?search(@.a, 'a') <> false]", "$.arr[?search(@.a, 'a') != false]"),
                   ("$.arr[?length(@.*) <> 2]", "$.arr[?length(@.*) != 2]"),
                   ("$.arr[?@.a and length(@.a)]", "$.arr[?@.a && length(@.a)]"), ("$.arr[?not count(@.*)]", "$.arr[?!count(@.*)]"),
                   ("$.arr[?@.a or 2]", "$.arr[?@.a || 2]"), ("$.arr[?@.* == nil]", "$.arr[?@.* == null]"),
                   ("$.arr[?True]", "$.arr[?true]"), ("$.arr[?not none]", "$.arr[?!null]")):
        out.append(("rejected:" + ("<>" if "<>" in a_ else "words"), a_, s_))
    # a word operator directly followed by a negative number (no blank): the hyphen starts the number, not a longer name
    out.append(("and/or/not", "$[?@.b == -2 or-1 == @.b]", "$[?@.b == -2 ||-1 == @.b]"))
    out.append(("and/or/not", "$[?@.b and-1 == @.b]", "$[?@.b &&-1 == @.b]"))
    out.append(("in/contains", "$[?@.b in-1]", "$[?-1 contains @.b]"))
    out.append(("in/contains", "$[?@ in-1]", "$[?-1 contains @]"))
    # blank space after the parenthesis that follows a word operator is JSONPath blank space only, as after '!('
    for ch in ("\x0c", "\x0b", "\u00a0", "\u3000"):
        out.append(("rejected:words", "$.arr[?not(%s@.a)]" % ch, "$.arr[?!(%s@.a)]" % ch))
        out.append(("rejected:words", "$.arr[?@.a and(%s@.b)]" % ch, "$.arr[?@.a &&(%s@.b)]" % ch))
    for nm in ("in-stock", "and-so", "true-north", "null-x", "nil-z", "or-else", "_foo", "contains-x", "undefined-x", "missing-y",
               "False-w", "None-q", "not-x"):
        out.append(("bare-names", "$[%s]" % nm, "$['%s']" % nm))
        out.append(("bare-names", "$..[%s]" % nm, "$..['%s']" % nm))
        out.append(("bare-names", "$[arr, %s]" % nm, "$['arr', '%s']" % nm))
        out.append(("rootless", nm, "$['%s']" % nm))
        out.append(("bare-names", "$[?@[%s] == 1 || $[%s] == 7]" % (nm, nm), "$[?@['%s'] == 1 || $['%s'] == 7]" % (nm, nm)))
    # a regular-expression literal with an escaped slash
    out.append(("regex-slash", "$.arr[?@ =~ /a\\/b/]", "$.arr[?match(@, 'a/b')]"))
    out.append(("regex-slash", "$.arr[?@ =~ /a\\/b/ || @ =~ /a./]", "$.arr[?match(@, 'a/b') || match(@, 'a.')]"))
    out.append(("keys-shorthand", "$.o.~", "$.o[~]"))
    out.append(("keys-shorthand", "$..~", "$..[~]"))
    out.append(("in/contains", "$.arr[?@ in $.l]", "$.arr[?$.l contains @]"))
    out.append(("in/contains", "$.arr[?'a' in @]", "$.arr[?@ contains 'a']"))
    return out


def selftest():
    n = selftest_path.run()
    # extension clauses, from docs/syntax.md examples
    d = {"categories": [{"name": "footwear", "products": [{"title": "Trainers", "price": 89.99}]}], "price_cap": 10}
    assert rpath.values(Q(C(N("categories")), C(K)), d) == []
    assert rpath.values(Q(C(N("categories")), C(I(0)), C(K)), d) == ["name", "products"]
    assert rpath.values(fr(C(F(("cmp", ">", call("length", qa(C(N("categories")))), L(0))))), d) == [d]
    assert rpath.values(Q(C(F(("cmp", "==", KEY, L("price_cap"))))), d) == [10]
    assert rpath.values(Q(C(N("categories")), C(F(("cmp", "==", KEY, L(0))))), d) == [d["categories"][0]]
    assert rpath.values(Q(D(F(("cmp", "<", qa(C(N("price"))), qc(C(N("limit"))))))), d, {"limit": 100}) == [d["categories"][0]["products"][0]]
    assert rpath.values(Q(D(F(("cmp", "=~", qa(C(N("title"))), ("re", ".*TRAINERS", "i"))))), d) == [d["categories"][0]["products"][0]]
    assert rpath.values(Q(D(F(("cmp", "=~", qa(C(N("title"))), ("re", "Train", ""))))), d) == []
    assert rpath.values(Q(C(F(("cmp", "==", qa(C(N("sale"))), UNDEF)))), {"a": {"sale": 1}, "b": {"x": 1}}) == [{"x": 1}]
    return n + 9


def bounds(tier, seed):
    return {"constructs": len(constructs()), "alias_pairs": len(alias_pairs()), "docs": len(docs()), "contexts": len(CONTEXTS),
            "spelling_blanks": "1 (SP)" if tier == "quick" else "1 (SP, HT, LF, CR) x all quote styles"}


def plan(tier, seed):
    shards = []
    nc = len(constructs())
    for lo in range(0, nc, 12):
        shards.append(("X", tier, lo, min(nc, lo + 12)))
    na = len(alias_pairs())
    for lo in range(0, na, 60):
        shards.append(("A", lo, min(na, lo + 60)))
    shards.append(("P",))
    shards.append(("OPF",))
    nf = len(fake_root_compounds())
    for lo in range(0, nf, 100):
        shards.append(("F", lo, min(nf, lo + 100)))
    return shards


# documents that are not containers can only be queried usefully through the fake root; they are given as JSON text
# (a str argument is JSON text by the API), including strings whose content looks like JSON text
PRIM_TEXTS = ['"[2]"', '"{"', '"a"', '2', 'null', '"null"', '"2"', '"{\\"a\\": 2}"', 'true', '""', '3.5', '"ab"']


def prim_constructs():
    return [fr(), fr(C(I(0))), fr(C(W)), fr(C(I(0), I(-1))), fr(D(W)),
            fr(C(F(("cmp", "==", qa(), L("[2]"))))), fr(C(F(("cmp", "==", qa(), L(2))))), fr(C(F(("test", Q())))),
            fr(C(F(("cmp", "==", qr(C(I(0))), L(2))))), fr(C(F(("cmp", "==", qr(C(N("a"))), L(2))))),
            fr(C(F(("cmp", "==", qr(), qa())))), fr(C(F(("cmp", ">", call("length", qa()), L(1))))),
            fr(C(F(("cmp", "==", call("length", qr()), L(3))))), fr(C(F(("test", at(C(I(0))))))),
            fr(C(F(("cmp", "==", call("count", qr(C(W))), L(1))))), fr(C(F(("cmp", "=~", qa(), ("re", ".2.", ""))))),
            fr(C(F(("cmp", "in", L("2"), qr())))), fr(C(F(("cmp", "==", qa(), L(None)))))]


FR_SIMPLE = ["^[?@.k == 2].k", "$.k", "^[0].s", "$.l[*]", "^[?@.o].l[*]", "$.o.*",
             # operands that read the filter context: every operand of a compound query gets the caller's mapping
             "$.l[?@ == _.lim]", "$.arr[?@ == _.name || @ > _.lim]"]


def fake_root_compounds():
    """The fake root as an operand of union / intersection, in every position next to standard roots."""
    out = []
    for n in (1, 2):
        for qs in itertools.product(FR_SIMPLE, repeat=n + 1):
            for ops in itertools.product("|&", repeat=n):
                out.append(tuple(x for pair in zip(qs, ops + ("",)) for x in pair if x))
    return out


def run_shard(shard, acc):
    if shard[0] == "X":
        _, tier, lo, hi = shard
        o = spell.Opts(full_strings=False)
        for tag, q in constructs()[lo:hi]:
            if tier == "quick":
                texts = list(spell.spellings(spell.query(q, o), 1, False, blanks=(" ",)))
            else:
                texts = list(spell.spellings(spell.query(q, o), 1, True, blanks=spell.BLANKS))
            for text in texts:
                _eval(tag, q, text, acc)
    elif shard[0] == "OPF":
        _operator_named_functions(acc)
    elif shard[0] == "P":
        o = spell.Opts(full_strings=False)
        for q in prim_constructs():
            for t in PRIM_TEXTS:
                _prim(q, spell.text(q, o), t, acc)
    elif shard[0] == "F":
        for parts in fake_root_compounds()[shard[1]:shard[2]]:
            _fake_compound(parts, acc)
    else:
        for tag, alias, std in alias_pairs()[shard[1]:shard[2]]:
            _alias(tag, alias, std, acc)


def _prim(q, text, t, acc, record=True):
    import io
    import json

    import jsonpath

    exp = rpath.values(q, json.loads(t))
    bad = None
    try:
        p = jsonpath.compile(text)
        for name, fn in (("findall(text)", lambda: p.findall(t)), ("env.findall(text)", lambda: jsonpath.findall(text, t)),
                         ("finditer(StringIO)", lambda: [m.obj for m in p.finditer(io.StringIO(t))])):
            got = fn()
            if not jeq_list(got, exp):
                bad = ("primitive-document." + name, got)
                break
    except Exception as e:  # noqa: BLE001
        bad = ("exception", "%s: %s" % (type(e).__name__, e))
    if record:
        acc.case("P", (text, t), outcome=tuple(ckey(v) for v in exp), nontrivial=bool(exp))
        acc.count("P.%s" % ("some" if exp else "none"))
        if acc.evals % 40 == 1:
            acc.sample("P", {"text": text, "doc_text": t, "expected": exp})
    if bad:
        acc.violation("P", bad[0], {"q": q, "text": text, "doc_text": t}, expected=exp, observed=bad[1])


def _fake_compound(parts, acc, record=True):
    import jsonpath
    from .c11 import fold

    text = " ".join(parts)
    try:
        p = jsonpath.compile(text)
        simple = [jsonpath.compile(q) for q in parts[0::2]]
    except Exception as e:  # noqa: BLE001
        acc.violation("F", "compile-error", {"parts": list(parts), "query": text}, expected="compiles", observed="%s: %s" % (type(e).__name__, e))
        return
    fc = CONTEXTS[2]
    for di, doc in enumerate(docs()):
        exp = fold([sp.findall(doc, filter_context=fc) for sp in simple], list(parts[1::2]))
        bad = None
        try:
            got = p.findall(doc, filter_context=fc)
            got2 = [m.obj for m in p.finditer(doc, filter_context=fc)]
            m1 = p.match(doc, filter_context=fc)
            if bool(exp) != (m1 is not None) or (exp and not jeq_list([m1.obj], exp[:1])):
                bad = ("fake-root-compound.match", None if m1 is None else m1.obj)
            if bad:
                pass
            elif not jeq_list(got, exp):
                bad = ("fake-root-compound.findall", got)
            elif not jeq_list(got2, exp):
                bad = ("fake-root-compound.finditer", got2)
        except Exception as e:  # noqa: BLE001
            bad = ("exception", "%s: %s" % (type(e).__name__, e))
        if record:
            acc.case("F", (text, di), outcome=tuple(ckey(v) for v in exp), nontrivial=bool(exp))
            acc.count("F.%s" % ("some" if exp else "none"))
        if bad:
            acc.violation("F", bad[0], {"parts": list(parts), "query": text, "doc": doc}, expected=exp, observed=bad[1])
            return


def _eval(tag, q, text, acc, only=None, record=True):
    import jsonpath

    try:
        p = jsonpath.compile(text)
    except Exception as e:  # noqa: BLE001
        acc.violation("X", "compile-error", {"tag": tag, "q": q, "text": text}, expected="compiles (documented syntax)",
                      observed="%s: %s" % (type(e).__name__, e))
        return
    for di, doc in enumerate(docs()):
        for ci, fc in enumerate(CONTEXTS):
            if tag != "context" and ci > 0:
                continue
            if only is not None and only != (di, ci):
                continue
            exp = rpath.values(q, doc, fc)
            bad = None
            try:
                got = p.findall(doc, filter_context=fc) if fc is not None else p.findall(doc)
                if not jeq_list(got, exp):
                    bad = ("result", got)
                else:
                    got2 = jsonpath.findall(text, doc, filter_context=fc)
                    if not jeq_list(got2, exp):
                        bad = ("result-env", got2)
            except Exception as e:  # noqa: BLE001
                bad = ("exception", "%s: %s" % (type(e).__name__, e))
            if record:
                acc.case("X", (text, di, ci), outcome=tuple(ckey(v) for v in exp), nontrivial=bool(exp))
                acc.count("X.%s.%s" % (tag, "some" if exp else "none"))
                if acc.evals % 700 == 1:
                    acc.sample("X", {"tag": tag, "text": text, "doc": doc, "filter_context": fc, "expected": exp})
            if bad:
                acc.violation("X", bad[0], {"tag": tag, "q": q, "text": text, "doc": doc, "filter_context": fc, "di": di, "ci": ci},
                              expected=exp, observed=bad[1])
                return


def _alias(tag, alias, std, acc, record=True):
    import jsonpath
    from jsonpath import JSONPathError

    if tag.startswith("opfunc:"):
        _operator_named_functions(acc, record=False)
        return

    if tag.startswith("rejected:"):
        # the standard spelling is refused at compile time (RFC 9535 typing rules): the alias is the same query
        outcome = []
        for text in (std, alias):
            try:
                jsonpath.compile(text)
                outcome.append("accepted")
            except JSONPathError:
                outcome.append("rejected")
            except Exception as e:  # noqa: BLE001
                outcome.append("%s: %s" % (type(e).__name__, e))
        if record:
            acc.case("A", (alias, std, "compile"), outcome=tuple(outcome), nontrivial=True)
            acc.count("A.rejected.some")
        if outcome[0] != "rejected":
            raise ValueError("C13 table: %r is expected to be refused" % std)
        if outcome[1] != "rejected":
            acc.violation("A", "alias-accepted", {"tag": tag, "alias": alias, "standard": std}, expected="rejected like the standard spelling",
                          observed=outcome[1])
        return
    try:
        pa = jsonpath.compile(alias)
        ps = jsonpath.compile(std)
    except Exception as e:  # noqa: BLE001
        acc.violation("A", "compile-error", {"tag": tag, "alias": alias, "standard": std}, expected="both compile",
                      observed="%s: %s" % (type(e).__name__, e))
        return
    for di, doc in enumerate(docs()):
        bad = None
        try:
            a = pa.findall(doc)
            s = ps.findall(doc)
            if not jeq_list(a, s):
                bad = ("alias-differs", s, a)
        except Exception as e:  # noqa: BLE001
            bad = ("exception", None, "%s: %s" % (type(e).__name__, e))
            s = []
        if record:
            acc.case("A", (alias, std, di), outcome=tuple(ckey(v) for v in s), nontrivial=bool(s))
            acc.count("A.%s.%s" % (tag.split(":")[0], "some" if s else "none"))
            if acc.evals % 700 == 1:
                acc.sample("A", {"tag": tag, "alias": alias, "standard": std, "doc": doc})
        if bad:
            acc.violation("A", bad[0], {"tag": tag, "alias": alias, "standard": std, "doc": doc}, expected=bad[1], observed=bad[2])
            return


def _operator_named_functions(acc, record=True):
    """not( / and( / or( / in( / contains( are operators - unless the environment has a function extension of that name,
    which then is a function call as before (docs/advanced.md: function extensions are registered by name)."""
    import jsonpath
    from jsonpath import JSONPathError
    from jsonpath.function_extensions import ExpressionType, FilterFunction

    class Has(FilterFunction):
        arg_types = [ExpressionType.VALUE, ExpressionType.VALUE]
        return_type = ExpressionType.LOGICAL

        def __call__(self, a, b):
            return isinstance(a, str) and isinstance(b, str) and b in a

    doc = [{"a": "xy"}, {"a": "z"}, {"a": 1}]
    for name in ("contains", "in", "not", "and", "or"):
        env = jsonpath.JSONPathEnvironment()
        env.function_extensions[name] = Has()
        text = "$[?%s(@.a, 'x')]" % name
        try:
            got = env.findall(text, doc)
        except JSONPathError as e:
            got = "%s: %s" % (type(e).__name__, e)
        except Exception as e:  # noqa: BLE001
            got = "%s: %s" % (type(e).__name__, e)
        if record:
            acc.case("A", ("opfunc", name), outcome=True, nontrivial=True)
            acc.count("A.opfunc.some")
        if got != [{"a": "xy"}]:
            acc.violation("A", "registered-function-shadowed", {"tag": "opfunc:" + name, "alias": text, "standard": text},
                          expected=[{"a": "xy"}], observed=got)
    # and without such a function the same words are operators (default environment)
    for text, std in (("$[?not(@.a == 1)]", "$[?!(@.a == 1)]"), ("$[?(@.a)and(@.a)]", "$[?(@.a)&&(@.a)]")):
        a, b = jsonpath.findall(text, doc), jsonpath.findall(std, doc)
        if a != b:
            acc.violation("A", "alias-differs", {"tag": "opfunc:word", "alias": text, "standard": std}, expected=b, observed=a)


def REQUIRE(tier):
    req = {}
    for t in ("keys", "fake-root", "key", "context", "membership", "regex", "undefined"):
        req["X.%s.some" % t] = 1
        req["X.%s.none" % t] = 1
    for t in ("and/or/not", "<>", "literal", "bare-names", "rootless", "undefined"):
        req["A.%s.some" % t] = 1
    req["A.rejected.some"] = 5
    req["F.some"] = 100
    req["P.some"] = 30
    req["P.none"] = 30
    return req


def check_case(sub, case, acc):
    if sub == "F":
        _fake_compound(tuple(case["parts"]), acc, record=False)
        return
    if sub == "P":
        _prim(tup(case["q"]), case["text"], case["doc_text"], acc, record=False)
        return
    if sub == "X":
        q = tup(case["q"])
        # replay on the recorded document/context
        import jsonpath

        text = case["text"]
        doc, fc = case.get("doc"), case.get("filter_context")
        try:
            p = jsonpath.compile(text)
        except Exception as e:  # noqa: BLE001
            acc.violation("X", "compile-error", case, expected="compiles", observed="%s: %s" % (type(e).__name__, e))
            return
        exp = rpath.values(q, doc, fc)
        try:
            got = p.findall(doc, filter_context=fc) if fc is not None else p.findall(doc)
            if not jeq_list(got, exp):
                acc.violation("X", "result", case, expected=exp, observed=got)
        except Exception as e:  # noqa: BLE001
            acc.violation("X", "exception", case, expected=exp, observed="%s: %s" % (type(e).__name__, e))
    else:
        _alias(case["tag"], case["alias"], case["standard"], acc, record=False)


def shrink(sub, case):
    if sub == "X" and isinstance(case.get("doc"), dict) and "arr" in case["doc"]:
        doc = case["doc"]
        cont = doc["arr"]
        if isinstance(cont, list):
            for i in range(len(cont)):
                d2 = dict(doc)
                d2["arr"] = cont[:i] + cont[i + 1:]
                c = dict(case)
                c["doc"] = d2
                yield c
        elif isinstance(cont, dict):
            for k in cont:
                d2 = dict(doc)
                d2["arr"] = {k2: v for k2, v in cont.items() if k2 != k}
                c = dict(case)
                c["doc"] = d2
                yield c


def signature(sub, case, v):
    import re

    if sub == "X":
        from .c02 import _expr_shape

        q = tup(case["q"])
        shape = "-"
        for seg in q[2]:
            for s in seg[1]:
                if s[0] == "filter":
                    shape = _expr_shape(s[1])
        return "C13.X.%s.%s.%s.%s" % (v["kind"], case["tag"], q[1], shape[:80])
    if sub == "F":
        return "C13.F.%s.ops(%s)" % (v["kind"], "".join(case["parts"][1::2]))
    if sub == "P":
        return "C13.P.%s.%s" % (v["kind"], case["text"])
    return "C13.A.%s.%s" % (v["kind"], case["tag"])
