"""Alphabets: one member per case split in the code (DESIGN section 3)."""
import itertools

# characters with one member per case split in lex.py / parse.py / serialize.py / pointer.py
SIGMA_C = ["a", "b", "_", "-", "0", "1", "+", " ", "'", '"', "\\", "/", "~", "#", ".", "[", "]", "%", "\n", "\x01",
           "\x7f", "é", "𝄞", "１", "*"]

LOOKALIKES = ["01", "00", "-0", "+1", "1_0", " 1", "1 ", "1e1", "1.0", "-", "and", "or", "not", "in", "contains",
              "true", "True", "false", "False", "nil", "Nil", "null", "Null", "none", "None", "undefined", "missing",
              "length", "count", "match", "search", "value", "~0", "~1", "a b", "$", "@", "a.b", "a'b\"c", "\\n",
              "퟿", "", "￿", "日本", "-1", "10", "12", "~01", "~2", "#a", "#0", "~a", "%41", "a/b", "~",
              "\t", "\b", "\f", "\r", "a\tb", "\r\n", "\x00", "\x1f", "\u2028", "\ud7ff\ue000"]


def strings_upto(n, sigma=SIGMA_C):
    out = [""]
    for ln in range(1, n + 1):
        for t in itertools.product(sigma, repeat=ln):
            out.append("".join(t))
    return out


def names_upto(n):
    return strings_upto(n)
