"""C10 - a compiled query's string form recompiles to an equivalent query.

E-PROD (differential): every accepted query of the other generators (C01, C02, C07
well-typed, C13 constructs and aliases, compound queries, number/string/regex literal
forms) and every accepted string of C06's token-string space; oracle = the
implementation itself: compile(str(p)) must succeed, evaluate identically on a
separating universe, and be a fixed point of str().
"""
import itertools

from ..gen import spell
from ..jsonutil import ckey, jeq_list
from ..ref import rtype
from ..ref.rpath import C, D, F, I, N, Q, S, W
from . import c01, c02, c06, c07, c13
from .common import chunks

ID = "C10"
RULE = (
    "every query text produced by the C01 (selectors, lists, pipelines), C02 (atoms and trees), C07 (well-typed basics at "
    "every position), C13 (constructs, alias spellings) generators, compound queries with up to 3 operators, literal-form "
    "pools (numbers, strings, regex flags), and every accepted string of the C06 token space (<=3 tokens, thorough 4) and "
    "seed edits; for each accepted text q: s = str(compile(q)) must compile, str(compile(s)) == s, and findall(s, d) == "
    "findall(q, d) (or the same error class) for every d of a 40-document separating universe and 2 filter contexts. "
    "state = distinct accepted query text; non-trivial = at least one document gives a non-empty result"
)
ASSUMPTIONS = [
    "differential oracle: the implementation evaluated on the original text is the reference for its own string form",
    "documents chosen to separate groupings (! vs comparison, || vs &&), string contents, numeric values, regex flags, fake root, "
    "union/intersection shape; equivalence on documents outside the universe is not shown",
]


def universe():
    docs = list(c02.filter_docs()) + list(c13.docs()) + list(c01.SEP_DOCS) + [d for d in c06.DOCS if not isinstance(d, str) or len(d) < 100]
    docs += [
        [100, 100.0, 1e20, 1e-7, 0, -0.0, 1, 1.0, -1.5e-3, 1.5, 2, -1, 10, 1e2, 0.1],
        {"a": [100, "100", "1e2"], "b": {"a": 100}},
        ["a", "A", "a\nb", "ab", "b", "é", "", "a'b", 'a"b', "a\\b", "a/b", "\t", "\u0001"],
        [{"a": 1, "b": 2}, {"a": 1}, {"b": 2}, {"a": 2, "b": 2}, {}],
        [{"a": True}, {"a": False}, {"a": None}, {"a": 0}, {"a": ""}, {"a": []}],
        {"a": {"b": 1}, "b": {"b": 1}, "c": {"b": 2}},
    ]
    return docs


CONTEXTS = [None, {"lim": 2, "flag": True, "xs": [2, 3], "name": "a", "o": {"lim": 3}, "b": 1}]


def literal_forms():
    out = []
    for num in ("1e2", "1E2", "1.", "1.0", "-0", "0", "1.0e20", "1e20", "1e-7", "-1.5e-3", "100", "1.50", "-1", "1e0", "2e+1",
                "0.1", "-0.0", "1e-0"):
        for op in ("==", "<", ">="):
            out.append("$[?@ %s %s]" % (op, num))
        out.append("$[?@.a[0] == %s]" % num)
    for st in ("'a'", '"a"', "'a\\'b'", '"a\\"b"', "'a\"b'", '"a\'b"', "'a\\\\b'", "'a\\/b'", "'\\u0061'", "'\\t'", "'\\u0001'",
               "'\\ud834\\udd1e'", "'é'", "''", "'a\\nb'",
               # a backslash right before a quote of the other kind, a lone escaped backslash, DEL raw and escaped
               '"a\\\\\\"b"', "'a\\\\\"b'", '"\\\\"', "'\\\\'", "'a\\\\'", '"a\\\\\'b"', "'\\u007f'", "'a\x7fb'",
               '"k\\u007F"'):
        out.append("$[?@ == %s]" % st)
        out.append("$[%s]" % st)
        out.append("$..[%s]" % st)
        out.append("$[?@ in [%s, 1]]" % st)
        out.append("$[?match(@, %s)]" % st)
    for fl in ("", "i", "m", "s", "a", "im", "ims", "aims", "si", "ii"):
        for pat in ("a", "a.b", "^b", "A+", "a\\/b", "\\w", "[ab]"):
            out.append("$[?@ =~ /%s/%s]" % (pat, fl))
    out += ["$[?!(@.a == 1)]", "$[?!@.a == 1]", "$[?(!@.a) == 1]", "$[?!(@.a == 1 || @.b == 2)]", "$[?!(@.a && @.b)]",
            "$[?!@.a && @.b]", "$[?@.a || @.b && @.c]", "$[?(@.a || @.b) && @.c]", "$[?@.a && @.b || @.c]",
            "$[?@.a && (@.b || @.c)]", "$[?!(!@.a)]", "$[?!(!(@.a == 1))]", "$[?((@.a))]", "$[?@.a == 1 == true]",
            # logical groups and comparisons as operands of comparisons (accepted by the default environment)
            "$[?(@.a && @.b) == false]", "$[?true == (@.a || @.b)]", "$[?(@.a == 1) == true]", "$[?(@.a < 2) != (@.b < 2)]",
            "$[?(!@.a) == true]", "$[?(@.a || @.b) == (@.a && @.b)]", "$[?((@.a == 1) == true) == false]",
            "$[?1 == (@.a == 1)]", "$[?(@.a in [1]) == true]", "$[?@.a in [1] == true]",
            # negations as operands of comparisons
            "$[?(!(@.a == 1)) == true]", "$[?true == (!(@.a < 2))]", "$[?(!(@.a && @.b)) == false]", "$[?(!(!(@.a == 1))) == true]",
            "$[?(!(@.a == 1)) == (!(@.b == 1))]", "$[?!((!(@.a == 1)) == true)]", "$[?(!@.a) == (@.b == 1)]",
            "$[?(not (@.a == 1)) == true]", "$[?(!(@.a in [1])) == true]",
            # a comparison on the right of a membership operator (which binds tighter), and the reverse
            "$[?@.a contains (@.b == 1)]", "$[?@.a in (@.b < 2)]", "$[?@.a == (@.b in [1])]", "$[?(@.a contains @.b) == 1]",
            "$[?@.a contains (@.b contains 1)]", "$[?1 in (@.a == 1)]",
            # a string that ends in a backslash, followed by another string
            '$["a\\\\", "b"]', "$['a\\\\', 'b']", '$[?@.d == "x\\\\" || @.d == "y"]', '$[?@ in ["x\\\\", "z"]]',
            "$[?match(@, 'a\\\\') && @ != 'b']",
            # filters nested 80 deep (below the hundred levels beyond which nothing is claimed)
            "$" + "[?@" * 80 + ".a" + "]" * 80,
            "^[?@.a]", "^[0]", "^", "^..a", "$[?^[0].a == @.a]", "$[?@ == ^[0][0]]", "$", "", "$..", "$..*", "$.a..", "$[?@..a]"]
    return out


def compound_pool():
    simple = ["$.a", "$.b", "$..a", "$[*]", "$[?@.a == 1]", "$[0]", "^[?@.a]", "$.a.b"]
    out = []
    for n in (1, 2, 3):
        for qs in itertools.product(simple[:5] if n == 3 else simple, repeat=n + 1):
            for ops in itertools.product("|&", repeat=n):
                t = qs[0]
                for o, q in zip(ops, qs[1:]):
                    t += " %s %s" % (o, q)
                out.append(t)
    return out


def generated_texts(tier):
    texts = []
    # C01
    for s in c01.sel_alphabet_A():
        for k in ("child", "desc"):
            texts.append(spell.text(Q((k, [s]))))
    for a, b in itertools.product(c01.RED12, repeat=2):
        texts.append(spell.text(Q(C(a, b))))
        texts.append(spell.text(Q(C(a), D(b))))
        texts.append(spell.text(Q(D(a), C(b))))
    for nm in c01.names_upto(1) + c01.LOOKALIKES:
        for t in spell.spellings(spell.query(Q(C(N(nm)))), 0, True):
            texts.append(t)
    # C02
    for e in c02.all_atoms()[:: (3 if tier == "quick" else 1)]:
        texts.append(spell.text(Q(C(N("arr")), C(F(e)))))
        texts.append(spell.text(Q(C(N("arr")), C(F(("not", e))))))
    for e in c02.trees(tier)[:: (3 if tier == "quick" else 1)]:
        texts.append(spell.text(Q(C(N("arr")), C(F(e)))))
    # C07 well-typed basics at every position
    for e in c07.basics(tier)[:: (5 if tier == "quick" else 1)]:
        for pos in c07.POSITIONS:
            placed = c07.place(e, pos)
            if rtype.logical_ok(placed):
                texts.append(spell.text(Q(C(F(placed)))))
    # C13
    o = spell.Opts(full_strings=False)
    for _tag, q in c13.constructs():
        texts.append(spell.text(q, o))
    for _tag, alias, std in c13.alias_pairs():
        texts.append(alias)
        texts.append(std)
    texts += literal_forms()
    texts += compound_pool()
    texts += c06.SEEDS
    seen = set()
    out = []
    for t in texts:
        if t not in seen:
            seen.add(t)
            out.append(t)
    return out


def bounds(tier, seed):
    return {"generated_texts": len(generated_texts(tier)), "token_strings_len": 3 if tier == "quick" else 4,
            "universe_docs": len(universe()), "contexts": len(CONTEXTS)}


def selftest():
    return 0


def plan(tier, seed):
    shards = []
    n = len(generated_texts(tier))
    for lo in range(0, n, 400):
        shards.append(("G", tier, lo, min(n, lo + 400)))
    nt = len(c06.T)
    if tier == "quick":
        for a in range(nt):
            shards.append(("Q", 3, a, None))
    else:
        for a in range(nt):
            for b in range(0, nt, 8):
                shards.append(("Q", 4, a, (b, b + 8)))
    for i in range(len(c06.SEEDS)):
        shards.append(("E", i))
    return shards


def run_shard(shard, acc):
    kind = shard[0]
    if kind == "G":
        for t in generated_texts(shard[1])[shard[2]:shard[3]]:
            _check("G", t, acc)
    elif kind == "Q":
        _, ln, a, rng = shard
        T = c06.T
        if rng is None:
            for rest_len in range(0, ln):
                for rest in itertools.product(T, repeat=rest_len):
                    _check("Q", T[a] + "".join(rest), acc)
        else:
            for b in range(rng[0], min(rng[1], len(T))):
                for rest_len in range(0, ln - 1):
                    for rest in itertools.product(T, repeat=rest_len):
                        _check("Q", T[a] + T[b] + "".join(rest), acc)
    elif kind == "E":
        seen = set()
        for s in c06._edits(c06.SEEDS[shard[1]], c06.T):
            if s not in seen:
                seen.add(s)
                _check("Q", s, acc)


_UNIV = None


def _evaluate(p, doc, fc):
    from jsonpath import JSONPathError

    try:
        if fc is None:
            return ("ok", p.findall(doc))
        return ("ok", p.findall(doc, filter_context=fc))
    except JSONPathError as e:
        return ("error", type(e).__name__)


def _check(sub, text, acc, record=True):
    global _UNIV
    import jsonpath
    from jsonpath import JSONPathError

    try:
        p = jsonpath.compile(text)
    except JSONPathError:
        if record and sub == "G":
            acc.count("G.rejected")
        return
    except Exception:  # noqa: BLE001  (C06's business)
        return
    if _UNIV is None:
        _UNIV = universe()
    univ_docs = _UNIV if sub == "G" else _UNIV[::4]   # token-soup strings: every 4th document of the universe
    bad = None
    nonempty = False
    try:
        s = str(p)
        try:
            p2 = jsonpath.compile(s)
        except JSONPathError as e:
            p2 = None
            bad = ("does-not-recompile", "compiles", "%s -> %s: %s" % (s, type(e).__name__, e))
        if p2 is not None:
            s2 = str(p2)
            if s2 != s:
                bad = ("not-a-fixed-point", s, s2)
            else:
                for di, doc in enumerate(univ_docs):
                    for fc in CONTEXTS:
                        a = _evaluate(p, doc, fc)
                        b = _evaluate(p2, doc, fc)
                        if a[0] == "ok" and a[1]:
                            nonempty = True
                        if a[0] != b[0] or (a[0] == "ok" and not jeq_list(a[1], b[1])) or (a[0] == "error" and a[1] != b[1]):
                            bad = ("not-equivalent", list(a), [s, list(b), {"doc": doc, "filter_context": fc}])
                            break
                    if bad:
                        break
    except Exception as e:  # noqa: BLE001
        bad = ("exception", "no exception", "%s: %s" % (type(e).__name__, e))
    if record:
        acc.case(sub, text, outcome=s if bad is None else bad[0], nontrivial=nonempty, trans=2 * len(univ_docs) * len(CONTEXTS))
        acc.count(sub + ".accepted")
        if acc.evals % 800 == 1:
            acc.sample(sub, {"text": text, "str": s if bad is None else None})
    if bad:
        acc.violation("STR", bad[0], {"text": text}, expected=bad[1], observed=bad[2])


REQUIRE = {"G.accepted": 3000, "Q.accepted": 500}


def check_case(sub, case, acc):
    _check("G", case["text"], acc, record=False)


def shrink(sub, case):
    t = case["text"]
    for i in range(len(t)):
        for j in range(i + 1, min(len(t), i + 14) + 1):
            yield {"text": t[:i] + t[j:]}


def signature(sub, case, v):
    import re

    t = case["text"]
    shape = re.sub(r"'[^']*'|\"[^\"]*\"", "s", t)
    shape = re.sub(r"[A-Za-z_][A-Za-z0-9_]*\(", "f(", shape)
    shape = re.sub(r"[@$][.A-Za-z0-9_\[\]*]*", "q", shape)
    shape = re.sub(r"[A-Za-z_][A-Za-z0-9_]*", "w", shape)
    shape = re.sub(r"-?[0-9][0-9.eE+-]*", "9", shape)
    shape = re.sub(r"==|!=|<=|>=|<>|<|>", "~", shape)
    shape = re.sub(r"f\([^()]*\)", "c", shape)
    shape = re.sub(r"\b[swc9q]\b|\[\]", "v", shape)
    return "C10.%s.%s" % (v["kind"], shape[:60])
