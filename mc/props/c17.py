"""C17 - renaming the environment's identifier tokens never changes what a query means.

E-CONF x E-PROD: the default configuration plus every injective assignment that departs
from it in <= c identifiers, each departure ranging over a pool of 1-3 character
spellings (prefix-related pairs on purpose); query templates using every identifier in
every position are rendered with the configuration's spellings.
"""
import itertools

from ..gen import spell
from ..jsonutil import ckey, jeq_list
from ..ref.rpath import C, D, F, I, K, N, Q, W
from .common import chunks

ID = "C17"
RULE = (
    "configurations: default + every injective assignment departing from it in <=1 (thorough <=2) of the 8 identifiers, each "
    "departure over the pool {$$ @@ ## ~~ ^^ % %% $% %$ $@ @$ _@ _$, operator-initial <~ <|> =&, the other identifiers' defaults, *~ for the keys selector, "
    "| and & swapped}; 37 query templates using every identifier in every position (root, nested root, current node, current "
    "key, filter context, keys selector shorthand/bracketed/after '..'/in lists, fake root, union, intersection) rendered with "
    "the configuration's spellings, on 8 documents x 2 filter contexts; result must equal the default environment on the "
    "default spelling, and env.compile(str(env.compile(q))) must evaluate identically. "
    "state = distinct (configuration, template, document); non-trivial = non-empty result"
)
ASSUMPTIONS = [
    "admissible spellings: strings over $ @ # ~ ^ % of length <= 3, '_@' and '_$' (not for the keys selector: '._' is a member-name shorthand), single | and &, '*~' and '<~' for the keys "
    "selector only, '<|>' and '=&' for union/intersection only (DESIGN 1a: no spelling that makes some text ambiguous)",
    "the default environment on the default spelling is the reference (its own conformance is C01/C02/C13's subject)",
]

IDS = ["root_token", "self_token", "key_token", "filter_context_token", "keys_selector_token", "fake_root_token",
       "union_token", "intersection_token"]
DEFAULTS = {"root_token": "$", "self_token": "@", "key_token": "#", "filter_context_token": "_", "keys_selector_token": "~",
            "fake_root_token": "^", "union_token": "|", "intersection_token": "&"}
SPELL_KEY = {"root_token": "$", "self_token": "@", "key_token": "#", "filter_context_token": "_", "keys_selector_token": "~",
             "fake_root_token": "^"}
POOL = ["$$", "@@", "##", "~~", "^^", "%", "%%", "$%", "%$", "$@", "@$", "%%%", "#~", "^$",
        # the default filter-context spelling (a name character) as a proper prefix of a spelling that is not a name
        "_@", "_$"]
DEF_SWAP = ["$", "@", "#", "~", "^"]


def pool_for(ident, departures):
    p = list(POOL)
    # spellings that begin with a comparison-operator character, for the identifiers that never stand where an operator
    # can (after '.' or '[', or between two queries) - so no text is ambiguous
    if ident == "keys_selector_token":
        # (and not '_@' / '_$': after a dot, '._' is the RFC's shorthand for a member named '_')
        p = [x for x in p if not x.startswith("_")] + ["*~", "<~"]
    if ident in ("union_token", "intersection_token"):
        p += ["|", "&", "<|>", "=&"]
    if departures >= 2:
        p += DEF_SWAP
    return [x for x in p if x != DEFAULTS[ident]]


def configs(tier):
    out = [dict(DEFAULTS)]
    for ident in IDS:
        for sp in pool_for(ident, 1):
            c = dict(DEFAULTS)
            c[ident] = sp
            if _injective(c):
                out.append(c)
    # prefix-related spellings for every ordered pair of identifiers (two departures), in both tiers
    for a, b in itertools.permutations(IDS, 2):
        for sa, sb in (("%", "%%"), ("#~", "#~~"), ("$@", "$")):
            c = dict(DEFAULTS)
            c[a] = sa
            c[b] = sb
            if _injective(c) and c not in out:
                out.append(c)
    if tier == "thorough":
        for a, b in itertools.combinations(IDS, 2):
            for sa in pool_for(a, 2):
                for sb in pool_for(b, 2):
                    c = dict(DEFAULTS)
                    c[a] = sa
                    c[b] = sb
                    if _injective(c):
                        out.append(c)
    return out


def seed_configs(seed):
    """One complete block of the thorough tier: all 2-departure configurations of one identifier pair."""
    pairs = list(itertools.combinations(IDS, 2))
    a, b = pairs[seed % len(pairs)]
    out = []
    for sa in pool_for(a, 2):
        for sb in pool_for(b, 2):
            c = dict(DEFAULTS)
            c[a] = sa
            c[b] = sb
            if _injective(c):
                out.append(c)
    return out


def _injective(c):
    vals = list(c.values())
    return len(set(vals)) == len(vals)


def at(*s):
    return Q(*s, root="@")


def L(v):
    return ("lit", v)


def qa(*s):
    return ("q", at(*s))


def qr(*s):
    return ("q", Q(*s))


def qc(*s):
    return ("q", Q(*s, root="_"))


KEY = ("key",)


def templates():
    """Each template is a list of (operator|None, query AST): a simple or compound query."""
    A = C(N("arr"))
    O = C(N("o"))
    simple = [
        Q(C(N("k"))), Q(D(N("a"))), Q(C(W)), Q(A, C(I(0))), Q(),
        Q(A, C(F(("test", at(C(N("a"))))))), Q(A, C(F(("cmp", "==", qa(C(N("a"))), L(2))))), Q(A, C(F(("cmp", ">", qa(), L(1))))),
        Q(A, C(F(("cmp", "==", qa(), qr(C(N("k"))))))), Q(C(F(("test", at(C(F(("cmp", "==", qa(), qr(C(N("k"))))))))))),
        Q(O, C(F(("cmp", "==", KEY, L("a"))))), Q(A, C(F(("cmp", ">", KEY, L(0))))), Q(A, C(F(("cmp", "==", KEY, qa())))),
        Q(A, C(F(("cmp", ">", qa(), qc(C(N("lim"))))))), Q(A, C(F(("test", Q(C(N("flag")), root="_"))))),
        Q(O, C(K)), Q(D(K)), Q(C(K, N("k"))), Q(O, C(N("a"), K)), Q(A, C(W), C(K)),
        Q(C(F(("test", at(C(K)))))),
        Q(C(F(("test", at(C(N("k")))))), root="^"), Q(C(I(0)), C(N("k")), root="^"), Q(root="^"),
        Q(A, C(F(("cmp", "==", qa(), ("q", Q(C(I(0)), C(N("k")), root="^")))))),
        Q(O, C(F(("or", ("and", ("cmp", "==", KEY, L("a")), ("cmp", ">", qa(), qc(C(N("lim"))))), ("cmp", "==", qr(C(N("k"))), L(3)))))),
        Q(A, C(F(("not", ("test", at(C(N("a")))))))),
        # the current key as an argument of type-checked functions
        Q(O, C(F(("cmp", "==", ("call", "length", [KEY]), L(1))))), Q(O, C(F(("call", "match", [KEY, L("a.?")])))),
        Q(A, C(F(("cmp", "==", ("call", "value", [qa(C(N("a")))]), KEY)))),
    ]
    out = [[(None, q)] for q in simple]
    a, b, c = Q(C(N("k"))), Q(C(N("o")), C(W)), Q(A, C(I(0)))
    fr = Q(C(F(("test", at(C(N("k")))))), root="^")
    out += [[(None, a), ("|", b)], [(None, b), ("&", a)], [(None, b), ("&", Q(C(N("o")), C(N("a"))))],
            [(None, a), ("|", b), ("&", Q(C(N("o")), C(N("ab"))))], [(None, fr), ("|", a)], [(None, b), ("|", b), ("|", c)],
            [(None, Q(O, C(K))), ("|", Q(D(K)))]]
    return out


DOCS = [
    {"k": 2, "flag": 1, "o": {"a": 1, "ab": 2, "b": 3}, "arr": [0, 1, 2, 3, {"a": 2}, {"a": 1}, [2], "a"]},
    {"k": 3, "o": {"a": 5}, "arr": [{"a": 2, "k": 1}, 2, 3]},
    [[2, 3], {"a": 2, "k": 2}, "a"],
    {"a": {"a": {"a": 2}}, "b": [{"a": 3}], "k": {"k": 1}},
    {"k": 2, "o": {}, "arr": []},
    [],
    {},
    {"arr": {"x": 2, "y": {"a": 2}}, "o": [1, 2], "k": 2},
]
CONTEXTS = [None, {"lim": 1, "flag": True}]


def render(tmpl, conf, full=False):
    toks = {SPELL_KEY[i]: conf[i] for i in SPELL_KEY}
    o = spell.Opts(full_strings=False, tokens=toks)
    parts = []
    for op, q in tmpl:
        if op is not None:
            parts.append(" " + (conf["union_token"] if op == "|" else conf["intersection_token"]) + " ")
        parts.append(spell.text(q, o))
    return "".join(parts)


def selftest():
    assert render(templates()[0], DEFAULTS) == "$.k"
    c = dict(DEFAULTS)
    c["root_token"] = "$$"
    c["self_token"] = "@$"
    assert render(templates()[8], c) == "$$.arr[?@$==$$.k]"
    return 2


def bounds(tier, seed):
    return {"configurations": len(configs(tier)) + (len(seed_configs(seed)) if tier == "quick" else 0),
            "templates": len(templates()), "docs": len(DOCS), "contexts": len(CONTEXTS)}


def plan(tier, seed):
    n = len(configs(tier))
    shards = [("C", tier, lo, min(n, lo + (8 if tier == "quick" else 40))) for lo in range(0, n, 8 if tier == "quick" else 40)]
    if tier == "quick":
        m = len(seed_configs(seed))
        shards += [("S", seed, lo, min(m, lo + 20)) for lo in range(0, m, 20)]
    return shards


_REF = {}
_PREV_BY_TEMPLATE = {}  # template index -> (compiled query, its string form, configuration) from an earlier configuration
_SEEN_CONF = {}


def _reference(ti, tmpl):
    import jsonpath

    if ti not in _REF:
        p = jsonpath.compile(render(tmpl, DEFAULTS))
        res = []
        for doc in DOCS:
            for fc in CONTEXTS:
                res.append(p.findall(doc, filter_context=fc))
        _REF[ti] = res
    return _REF[ti]


def make_env(conf):
    import jsonpath

    cls = type("Env", (jsonpath.JSONPathEnvironment,), dict(conf))
    return cls()


def run_shard(shard, acc):
    if shard[0] == "C":
        cs = configs(shard[1])[shard[2]:shard[3]]
    else:
        cs = seed_configs(shard[1])[shard[2]:shard[3]]
    for conf in cs:
        _check_conf(conf, acc)


def _check_conf(conf, acc, record=True, only_t=None):
    from jsonpath import JSONPathError

    try:
        env = make_env(conf)
    except Exception as e:  # noqa: BLE001
        acc.violation("ENV", "env-construction", {"config": _departures(conf)}, expected="environment constructs",
                      observed="%s: %s" % (type(e).__name__, e))
        return
    for ti, tmpl in enumerate(templates()):
        if only_t is not None and ti != only_t:
            continue
        text = render(tmpl, conf)
        ref = _reference(ti, tmpl)
        case = {"config": _departures(conf), "template": ti, "text": text, "default_text": render(tmpl, DEFAULTS)}
        bad = None
        try:
            p = env.compile(text)
        except JSONPathError as e:
            bad = ("compile-error", "compiles", "%s: %s" % (type(e).__name__, e))
            p = None
        except Exception as e:  # noqa: BLE001
            bad = ("exception", "compiles", "%s: %s" % (type(e).__name__, e))
            p = None
        if p is not None:
            try:
                i = 0
                results = []
                for doc in DOCS:
                    for fc in CONTEXTS:
                        got = p.findall(doc, filter_context=fc)
                        results.append(got)
                        if not jeq_list(got, ref[i]):
                            bad = ("meaning-changed", ref[i], [got, {"doc": doc, "filter_context": fc}])
                            break
                        i += 1
                    if bad:
                        break
                if bad is None:
                    # the other entry points of the same compiled query
                    doc0, fc0 = DOCS[0], CONTEXTS[1]
                    it = [m.obj for m in p.finditer(doc0, filter_context=fc0)]
                    qv = list(p.query(doc0, filter_context=fc0).values())
                    m1 = p.match(doc0, filter_context=fc0)
                    if not jeq_list(it, ref[1]) or not jeq_list(qv, ref[1]):
                        bad = ("entry-points-disagree", ref[1], [it, qv])
                    elif (m1 is None) != (not ref[1]) or (m1 is not None and not jeq_list([m1.obj], ref[1][:1])):
                        bad = ("entry-points-disagree", ref[1][:1], None if m1 is None else m1.obj)
                if bad is None:
                    s = str(p)
                    # the string form must not change when another environment compiles something afterwards
                    dep = _departures(conf)
                    for pti, (pp, ps, pconf) in list(_PREV_BY_TEMPLATE.items()):
                        if pconf != dep and str(pp) != ps:
                            bad = ("string-form-changed-by-other-environment", ps, [str(pp), {"first_config": pconf, "template": pti}])
                            break
                    # remember, per template, a query compiled under an earlier configuration
                    if ti not in _PREV_BY_TEMPLATE or _PREV_BY_TEMPLATE[ti][2] != dep:
                        if len(_SEEN_CONF.setdefault(ti, [])) < 2 or ti not in _PREV_BY_TEMPLATE:
                            _PREV_BY_TEMPLATE[ti] = (p, s, dep)
                            _SEEN_CONF[ti].append(dep)
                if bad is None:
                    try:
                        p2 = env.compile(s)
                    except JSONPathError as e:
                        p2 = None
                        bad = ("str-does-not-recompile", "compiles", "%s -> %s: %s" % (s, type(e).__name__, e))
                    if p2 is not None:
                        i = 0
                        for doc in DOCS:
                            for fc in CONTEXTS:
                                got = p2.findall(doc, filter_context=fc)
                                if not jeq_list(got, ref[i]):
                                    bad = ("str-meaning-changed", ref[i], [s, got, {"doc": doc, "filter_context": fc}])
                                    break
                                i += 1
                            if bad:
                                break
            except Exception as e:  # noqa: BLE001
                bad = ("exception", "evaluates", "%s: %s" % (type(e).__name__, e))
        if record:
            nontriv = any(ref)
            acc.case("CONF", (tuple(sorted(conf.items())), ti), outcome=text, nontrivial=nontriv, trans=2 * len(DOCS) * len(CONTEXTS))
            for ident in IDS:
                if conf[ident] != DEFAULTS[ident]:
                    acc.count("departs." + ident)
            if acc.evals % 400 == 1:
                acc.sample("CONF", case)
        if bad:
            acc.violation("CONF", bad[0], case, expected=bad[1], observed=bad[2])


def _departures(conf):
    return {k: v for k, v in conf.items() if v != DEFAULTS[k]}


REQUIRE = {"departs." + i: 10 for i in IDS}


def check_case(sub, case, acc):
    conf = dict(DEFAULTS)
    conf.update(case["config"])
    if sub == "ENV":
        try:
            make_env(conf)
        except Exception as e:  # noqa: BLE001
            acc.violation("ENV", "env-construction", case, expected="constructs", observed="%s: %s" % (type(e).__name__, e))
        return
    _check_conf(conf, acc, record=False, only_t=case["template"])


def shrink(sub, case):
    conf = case["config"]
    for k in list(conf):
        if len(conf) > 1:
            c = dict(case)
            c["config"] = {k2: v for k2, v in conf.items() if k2 != k}
            tm = templates()[case["template"]]
            full = dict(DEFAULTS)
            full.update(c["config"])
            c["text"] = render(tm, full)
            yield c


def signature(sub, case, v):
    dep = ",".join("%s" % k.replace("_token", "") for k in sorted(case["config"]))
    lens = ",".join(str(len(v2)) for _, v2 in sorted(case["config"].items()))
    used = []
    t = case.get("default_text", "")
    for ch, nm in (("@", "self"), ("#", "key"), ("_.", "ctx"), ("_[", "ctx"), ("~", "keys"), ("^", "fake"), (" | ", "union"), (" & ", "inter")):
        if ch in t and nm not in used:
            used.append(nm)
    return "C17.%s.departs(%s).len(%s).uses(%s)" % (v["kind"], dep, lens, "+".join(used))
