#!/bin/bash
# tools/seedw.sh <PROP> <k> <slug> <needs> [checks]   (wave-3 layout: mutant<k>.diff + demo_test<k>.py in /tmp/wt/<PROP>)
P=$1; K=$2; SLUG=$3; NEEDS=$4; CHECKS=${5:-$P}
/verif/tools/seed.py $P /tmp/wt/$P mutant$K.diff demo_test$K.py "$SLUG" --checks "$CHECKS" --needs "$NEEDS" | python3 -c "import json,sys; d=json.load(sys.stdin); print('$P', '$SLUG', 'confirmed' if d['confirmed'] else 'NOT-CONFIRMED', 'caught_by=', d['caught_by'])"
