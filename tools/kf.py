#!/usr/bin/env python3
"""Append an entry to known_findings.json.  usage: kf.py fixed <prop> <commit> <what>  |  kf.py open <prop> <subcheck> '<where-json>' <what>"""
import json, sys
p = "/verif/known_findings.json"
k = json.load(open(p))
if sys.argv[1] == "fixed":
    _, _, prop, commit, what = sys.argv
    k.append({"property": prop, "status": "fixed", "commit": commit, "what": what,
              "line": "fixed: property=%s %s %s" % (prop, commit, what)})
else:
    _, _, prop, sub, where, what = sys.argv
    k.append({"property": prop, "status": "open", "subcheck": sub or None, "where": json.loads(where), "what": what})
json.dump(k, open(p, "w"), indent=1, ensure_ascii=False)
