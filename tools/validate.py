#!/opt/veriftools/pyvenv/bin/python
"""Validate MANIFEST.json and every evidence file against the schemas in /root/.vp."""
import glob, json, sys
import jsonschema
ok = True
def val(path, schema):
    global ok
    try:
        jsonschema.validate(json.load(open(path)), json.load(open(schema)))
        print("ok  ", path)
    except Exception as e:
        ok = False
        print("FAIL", path, str(e)[:300])
val("/verif/MANIFEST.json", "/root/.vp/MANIFEST.schema.json")
for p in sorted(glob.glob("/verif/evidence/*.json")):
    val(p, "/root/.vp/EVIDENCE.schema.json")
m = json.load(open("/verif/MANIFEST.json"))
ids = [json.loads(l)["id"] for l in open("/verif/properties.jsonl")]
claimed = [c["property_id"] for c in m["checks"]]
na = [c["property_id"] for c in m.get("not_applicable", [])]
for i in ids:
    if (i in claimed) == (i in na):
        ok = False; print("FAIL property", i, "claimed" if i in claimed else "neither claimed nor not_applicable")
sys.exit(0 if ok else 1)
